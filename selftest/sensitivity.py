#!/venv/bin/python
"""Apply each mutant of selftest/mutants.py (and each seeded change under seeded/) to a
scratch copy of /repo, confirm it still passes the repository's own tests, and run the
relevant quick check against it.  Writes selftest/results.json.

    selftest/sensitivity.py [--only SUBSTR] [--no-tests] [--runs SCALE] [--seeded]

The scratch copy lives under $TMPDIR (default /tmp) and is removed after each mutant.
"""
from __future__ import annotations

import argparse
import json
import os
import shutil
import subprocess
import sys
import tempfile
import time

VERIF = os.path.dirname(os.path.dirname(os.path.abspath(__file__)))
REPO = os.environ.get("VERIF_REPO", "/repo")
sys.path.insert(0, VERIF)


def scratch_copy() -> str:
    d = tempfile.mkdtemp(prefix="jpsim-mut-", dir=os.environ.get("TMPDIR") or "/tmp")
    for name in ("jsonpath", "tests", "pyproject.toml", "README.md"):
        src = os.path.join(REPO, name)
        if os.path.isdir(src):
            shutil.copytree(src, os.path.join(d, name), ignore=shutil.ignore_patterns("__pycache__"))
        elif os.path.exists(src):
            shutil.copy(src, os.path.join(d, name))
    return d


def apply_edit(root: str, e: dict) -> None:
    path = os.path.join(root, e["file"])
    s = open(path, encoding="utf-8").read()
    want = e.get("count", 1)
    if s.count(e["old"]) != want:
        raise RuntimeError(f"{e.get('id', '?')}: old text occurs {s.count(e['old'])} times in {e['file']}, expected {want}")
    open(path, "w", encoding="utf-8").write(s.replace(e["old"], e["new"]))


def run_tests(root: str) -> bool:
    try:
        return _run_tests(root)
    except subprocess.TimeoutExpired:
        return False


def _run_tests(root: str) -> bool:
    p = subprocess.run(
        ["/venv/bin/python", "-m", "pytest", "-q", "-p", "no:cacheprovider", "--continue-on-collection-errors", "tests"],
        cwd=root, capture_output=True, text=True, env={**os.environ, "PYTHONPATH": root, "PYTHONDONTWRITEBYTECODE": "1"},
        timeout=600,
    )
    tail = p.stdout.strip().splitlines()[-1] if p.stdout.strip() else ""
    return " failed" not in tail and "passed" in tail


def run_check(root: str, prop: str, runs: float) -> dict:
    t0 = time.time()
    p = subprocess.run(
        [os.path.join(VERIF, "bin", "check"), prop, "--tier", "quick", "--runs", str(runs), "--no-evidence", "--no-selfcheck"],
        cwd=VERIF, capture_output=True, text=True, env={**os.environ, "VERIF_REPO": root},
    )
    lines = p.stdout.splitlines()
    viol = [l for l in lines if l.startswith("VIOLATION")]
    clauses = [l.split(":")[0] for l in lines if l.startswith(prop + ".")]
    for v in viol:
        rp = v.split("replay=")[1].strip()
        if os.path.exists(rp):
            os.remove(rp)
    early = next((l.split("earliest violating run: ")[1] for l in lines if "earliest violating run: " in l), "")
    return {"rc": p.returncode, "violations": len(viol), "clauses": sorted(set(clauses)), "earliest": early, "wall_s": round(time.time() - t0, 1),
            "stderr": p.stderr[-400:] if p.returncode == 2 else ""}


def main() -> int:
    ap = argparse.ArgumentParser()
    ap.add_argument("--only", default="")
    ap.add_argument("--no-tests", action="store_true")
    ap.add_argument("--runs", type=float, default=0.5)
    ap.add_argument("--seeded", action="store_true", help="run the seeded/<id>/patch.diff corpus instead of mutants.py")
    args = ap.parse_args()
    results = []
    items = []
    if args.seeded:
        sd = os.path.join(VERIF, "seeded")
        for name in sorted(os.listdir(sd)):
            meta = os.path.join(sd, name, "meta.json")
            if os.path.exists(meta):
                m = json.load(open(meta))
                items.append({"id": name, "prop": m["property"], "patch": os.path.join(sd, name, "patch.diff"),
                              "expect": m.get("expect", "violation")})
    else:
        from selftest.mutants import MUTANTS

        items = MUTANTS
    for m in items:
        if args.only and not any(sub in m["id"] for sub in args.only.split(",")):
            continue
        root = scratch_copy()
        try:
            if "patch" in m:
                p = subprocess.run(["patch", "-p1", "-s", "-i", m["patch"]], cwd=root, capture_output=True, text=True)
                if p.returncode != 0:
                    raise RuntimeError(f"{m['id']}: patch failed: {p.stdout} {p.stderr}")
            else:
                apply_edit(root, m)
                for e in m.get("extra", []):
                    apply_edit(root, e)
            tests_ok = None if args.no_tests else run_tests(root)
            r = run_check(root, m["prop"], args.runs)
        finally:
            shutil.rmtree(root, ignore_errors=True)
        expect = m.get("expect", "violation")
        ok = (expect == "any") or (r["rc"] == 1 if expect == "violation" else r["rc"] == 0)
        results.append({"id": m["id"], "property": m["prop"], "expect": expect, "tests_pass": tests_ok, **r, "as_expected": ok})
        print(f"{'OK  ' if ok else 'MISS'} {m['id']:52s} {m['prop']} expect={expect:9s} tests_pass={tests_ok} rc={r['rc']} {r['clauses']} {r['earliest']} {r['wall_s']}s {r['stderr'][:200]}")
        sys.stdout.flush()
    out = os.path.join(VERIF, "selftest", "results-seeded.json" if args.seeded else "results.json")
    if not args.only:
        json.dump(results, open(out, "w"), indent=1)
    elif os.path.exists(out):
        # a partial re-run replaces the entries it re-ran and leaves the others as they were
        old = {r["id"]: r for r in json.load(open(out))}
        for r in results:
            old[r["id"]] = r
        order = [m["id"] for m in items]
        merged = sorted(old.values(), key=lambda r: order.index(r["id"]) if r["id"] in order else len(order))
        json.dump(merged, open(out, "w"), indent=1)
    bad = [r for r in results if not r["as_expected"]]
    print(f"{len(results) - len(bad)}/{len(results)} as expected")
    return 1 if bad else 0


if __name__ == "__main__":
    sys.exit(main())
