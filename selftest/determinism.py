#!/venv/bin/python
"""Determinism self-test: one seed is one exactly repeatable execution.

For every claimed property the first N runs of every configuration are executed
  (a) in batch mode with 1 worker,   (b) in batch mode with 16 workers,
  (c) sequentially in a fresh interpreter under PYTHONHASHSEED=0,
  (d) sequentially in a fresh interpreter under another PYTHONHASHSEED,
  (e) sequentially in a fresh interpreter under PYTHONHASHSEED=random,
and the event-log digests are diffed.  Any mismatch is a harness defect.

    selftest/determinism.py [N] [--props C08,C09] [--tier quick]
Writes selftest/determinism-results.json.
"""
from __future__ import annotations

import json
import os
import subprocess
import sys
import time

VERIF = os.path.dirname(os.path.dirname(os.path.abspath(__file__)))
REPO = os.environ.get("VERIF_REPO", "/repo")
sys.path[:0] = [REPO, VERIF]


def fresh(prop: str, tier: str, n: int, hashseed: str, seed: int) -> dict:
    env = dict(os.environ)
    env["PYTHONHASHSEED"] = hashseed
    env["VERIF_NO_REEXEC"] = "1"
    env["VERIF_SEED"] = str(seed)
    p = subprocess.run([os.path.join(VERIF, "bin", "check"), prop, "--tier", tier, "--digests", str(n)],
                       env=env, capture_output=True, text=True, timeout=7200)
    if p.returncode != 0:
        raise SystemExit(f"digest subprocess failed for {prop}: {p.stderr[-1000:]}")
    return json.loads(p.stdout.strip().splitlines()[-1])


def main() -> int:
    import argparse
    import importlib

    ap = argparse.ArgumentParser()
    ap.add_argument("n", nargs="?", type=int, default=100)
    ap.add_argument("--props", default="C08,C09,C11,C12,C15,C18")
    ap.add_argument("--tier", default="quick")
    ap.add_argument("--seed", type=int, default=20261004)
    args = ap.parse_args()
    from jpsim import simlock

    simlock.install()
    from jpsim import runner

    out = {}
    bad = 0
    for prop in args.props.split(","):
        t0 = time.time()
        modname = f"checks.{prop.lower()}"
        mod = importlib.import_module(modname)
        budget = {c: min(args.n, total) for c, total in mod.BUDGET[args.tier].items()}
        if prop == "C18":
            budget["subprocess"] = min(budget.get("subprocess", 0), max(4, args.n // 20))
        views = {}
        for nw in (1, 16):
            m = runner.run_batch(modname, args.tier, args.seed, budget, nw, want_digests=args.n)
            if m["errors"]:
                raise SystemExit(f"harness errors in batch mode: {m['errors'][:2]}")
            views[f"batch-{nw}-workers"] = m["digests"]
        nmax = max(budget.values())
        views["fresh-hashseed-0"] = fresh(prop, args.tier, nmax, "0", args.seed)
        views["fresh-hashseed-4242"] = fresh(prop, args.tier, nmax, "4242", args.seed)
        views["fresh-hashseed-random"] = fresh(prop, args.tier, nmax, "random", args.seed)
        keys = sorted(views["batch-1-workers"])
        mism = []
        for k in keys:
            vals = {name: v.get(k) for name, v in views.items()}
            if len(set(vals.values())) != 1:
                mism.append({"run": k, **{a: str(b)[:12] for a, b in vals.items()}})
        out[prop] = {"runs_compared": len(keys), "views": list(views), "mismatches": mism[:20], "n_mismatches": len(mism),
                     "wall_s": round(time.time() - t0, 1)}
        bad += len(mism)
        print(f"{prop}: {len(keys)} runs x {len(views)} executions, mismatches={len(mism)} ({out[prop]['wall_s']}s)")
        for m_ in mism[:5]:
            print("   ", m_)
        sys.stdout.flush()
    json.dump(out, open(os.path.join(VERIF, "selftest", "determinism-results.json"), "w"), indent=1)
    return 1 if bad else 0


if __name__ == "__main__":
    sys.exit(main())
