#!/venv/bin/python
"""Systematic sensitivity: mechanical mutation of the code each property is anchored in.

For every mutation site (comparison / boolean operator swaps, negated conditions, dropped `not`,
small constant changes, deleted `continue`/`break`/`raise`/expression statements, `return None`,
lost `await`) inside the selected functions, a scratch copy of /repo is mutated, the repository's
own test-suite is run, and for the mutants the suite does NOT kill the relevant quick checks are
run.  A mutant the suite lets through and the check reports is exactly what the checks are for;
one that neither notices is listed for inspection (most are equivalent or irrelevant to the
property -- e.g. identical in the sync and async halves -- but each one is a question).

    selftest/mutation.py [--targets async,query,patch,cli,cache,compound] [--runs 0.3] [--jobs 4] [--limit N]
Writes selftest/mutation-results.json.  Development evidence, not part of any check's exit status.
"""
from __future__ import annotations

import argparse
import ast
import copy
import json
import os
import shutil
import subprocess
import sys
import tempfile
import time
from concurrent.futures import ThreadPoolExecutor
from typing import Any
from typing import Dict
from typing import List
from typing import Optional
from typing import Tuple

VERIF = os.path.dirname(os.path.dirname(os.path.abspath(__file__)))
REPO = os.environ.get("VERIF_REPO", "/repo")
PY = "/venv/bin/python"

# target name -> (file, predicate on qualified function name, properties to run)
TARGETS: Dict[str, List[Tuple[str, Any, List[str]]]] = {
    "async": [
        ("jsonpath/selectors.py", lambda q: q.endswith("resolve_async"), ["C08"]),
        ("jsonpath/filter.py", lambda q: q.endswith("evaluate_async"), ["C08"]),
        ("jsonpath/path.py", lambda q: "_async" in q or q in ("_achain", "_aintersection"), ["C08"]),
        ("jsonpath/env.py", lambda q: q.endswith("_async"), ["C08"]),
    ],
    # the synchronous twins: a change on the sync side only must also show up as sync != async
    "sync": [
        ("jsonpath/selectors.py", lambda q: q.endswith(".resolve"), ["C08"]),
        ("jsonpath/filter.py", lambda q: q.endswith(".evaluate"), ["C08"]),
        ("jsonpath/path.py", lambda q: q in ("JSONPath.finditer", "JSONPath.findall", "CompoundJSONPath.findall", "CompoundJSONPath.finditer"), ["C08"]),
    ],
    "query": [("jsonpath/fluent_api.py", lambda q: q.startswith("Query.") and not q.startswith(("Query.select", "Query._select")), ["C12"])],
    "patch": [("jsonpath/patch.py", lambda q: True, ["C15"])],
    "cli": [("jsonpath/cli.py", lambda q: q.startswith("handle_") or q == "main", ["C18"])],
    "cache": [
        ("jsonpath/filter.py", lambda q: q.startswith(("BooleanExpression.cache", "CachingFilterExpression.", "FilterExpression.__init__"))
         or q.endswith(".__init__") and q.split(".")[0] in ("SelfPath", "RootPath", "FilterContextPath", "CurrentKey", "FunctionExtension", "Path"), ["C09"]),
        ("jsonpath/selectors.py", lambda q: q in ("Filter.resolve", "Filter.__init__"), ["C09"]),
    ],
    "compound": [
        ("jsonpath/path.py", lambda q: q.startswith("CompoundJSONPath.") and "_async" not in q and not q.endswith(("__str__", "__eq__", "__hash__")) or q in ("JSONPath.match", "JSONPath.findall", "JSONPath.query", "_intersection"), ["C11"]),
        ("jsonpath/_data.py", lambda q: True, ["C11"]),
        ("jsonpath/env.py", lambda q: q in ("JSONPathEnvironment.findall", "JSONPathEnvironment.finditer", "JSONPathEnvironment.match", "JSONPathEnvironment.query"), ["C11"]),
    ],
}

SWAP_CMP = {ast.Eq: ast.NotEq, ast.NotEq: ast.Eq, ast.Lt: ast.LtE, ast.LtE: ast.Lt, ast.Gt: ast.GtE, ast.GtE: ast.Gt,
            ast.Is: ast.IsNot, ast.IsNot: ast.Is, ast.In: ast.NotIn, ast.NotIn: ast.In}


class Mutator(ast.NodeTransformer):
    """Applies the k-th applicable mutation inside selected functions; counts sites otherwise."""

    def __init__(self, pred: Any, k: Optional[int]) -> None:
        self.pred = pred
        self.k = k
        self.n = 0
        self.stack: List[str] = []
        self.active = 0
        self.desc = ""

    def _hit(self, node: ast.AST, what: str) -> bool:
        if not self.active:
            return False
        i = self.n
        self.n += 1
        if self.k is not None and i == self.k:
            self.desc = f"{'.'.join(self.stack)}:{getattr(node, 'lineno', 0)} {what}"
            return True
        return False

    def _scope(self, node: Any) -> Any:
        self.stack.append(node.name)
        q = ".".join(self.stack)
        is_fn = isinstance(node, (ast.FunctionDef, ast.AsyncFunctionDef))
        on = is_fn and self.pred(q)
        if on:
            self.active += 1
        self.generic_visit(node)
        if on:
            self.active -= 1
        self.stack.pop()
        return node

    visit_ClassDef = _scope
    visit_FunctionDef = _scope
    visit_AsyncFunctionDef = _scope

    def visit_Compare(self, node: ast.Compare) -> Any:
        self.generic_visit(node)
        for i, op in enumerate(node.ops):
            t = SWAP_CMP.get(type(op))
            if t is not None and self._hit(node, f"{type(op).__name__}->{t.__name__}"):
                node.ops[i] = t()
        return node

    def visit_BoolOp(self, node: ast.BoolOp) -> Any:
        self.generic_visit(node)
        if self._hit(node, "And<->Or"):
            node.op = ast.Or() if isinstance(node.op, ast.And) else ast.And()
        return node

    def visit_UnaryOp(self, node: ast.UnaryOp) -> Any:
        self.generic_visit(node)
        if isinstance(node.op, ast.Not) and self._hit(node, "drop not"):
            return node.operand
        return node

    def visit_Constant(self, node: ast.Constant) -> Any:
        if isinstance(node.value, bool):
            if self._hit(node, f"{node.value}->{not node.value}"):
                return ast.copy_location(ast.Constant(not node.value), node)
        elif isinstance(node.value, int) and 0 <= node.value <= 3:
            if self._hit(node, f"{node.value}->{node.value + 1}"):
                return ast.copy_location(ast.Constant(node.value + 1), node)
        return node

    def visit_If(self, node: ast.If) -> Any:
        self.generic_visit(node)
        if self._hit(node, "negate if"):
            node.test = ast.UnaryOp(ast.Not(), node.test)
        return node

    def visit_Continue(self, node: ast.Continue) -> Any:
        return ast.copy_location(ast.Pass(), node) if self._hit(node, "continue->pass") else node

    def visit_Break(self, node: ast.Break) -> Any:
        return ast.copy_location(ast.Pass(), node) if self._hit(node, "break->pass") else node

    def visit_Raise(self, node: ast.Raise) -> Any:
        self.generic_visit(node)
        return ast.copy_location(ast.Pass(), node) if self._hit(node, "raise->pass") else node

    def visit_Expr(self, node: ast.Expr) -> Any:
        self.generic_visit(node)
        if isinstance(node.value, (ast.Call, ast.Await)) and self._hit(node, "drop call statement"):
            return ast.copy_location(ast.Pass(), node)
        return node

    def visit_Return(self, node: ast.Return) -> Any:
        self.generic_visit(node)
        if node.value is not None and not (isinstance(node.value, ast.Constant) and node.value.value is None):
            if self._hit(node, "return None"):
                node.value = ast.Constant(None)
        return node

    def visit_Await(self, node: ast.Await) -> Any:
        self.generic_visit(node)
        if self._hit(node, "lost await"):
            return node.value
        return node


def count_sites(src: str, pred: Any) -> int:
    m = Mutator(pred, None)
    m.visit(ast.parse(src))
    return m.n


def mutate(src: str, pred: Any, k: int) -> Tuple[str, str]:
    tree = ast.parse(src)
    m = Mutator(pred, k)
    tree = m.visit(tree)
    ast.fix_missing_locations(tree)
    return ast.unparse(tree), m.desc


def scratch() -> str:
    d = tempfile.mkdtemp(prefix="jpsim-mutation-", dir=os.environ.get("TMPDIR") or "/tmp")
    for name in ("jsonpath", "tests", "pyproject.toml"):
        src = os.path.join(REPO, name)
        if os.path.isdir(src):
            shutil.copytree(src, os.path.join(d, name), ignore=shutil.ignore_patterns("__pycache__"))
        elif os.path.exists(src):
            shutil.copy(src, os.path.join(d, name))
    return d


def tests_pass(root: str) -> bool:
    try:
        p = subprocess.run([PY, "-m", "pytest", "-q", "-x", "-p", "no:cacheprovider", "--timeout=120",
                            "--deselect", "tests/test_compliance.py", "--deselect", "tests/test_nts.py",
                            "--ignore=tests/test_compliance.py", "--ignore=tests/test_nts.py", "tests"],
                           cwd=root, capture_output=True, text=True, timeout=900,
                           env={**os.environ, "PYTHONPATH": root, "PYTHONDONTWRITEBYTECODE": "1"})
    except subprocess.TimeoutExpired:
        return False
    tail = p.stdout.strip().splitlines()[-1] if p.stdout.strip() else ""
    return p.returncode == 0 and "passed" in tail and "failed" not in tail


def run_check(root: str, prop: str, runs: float, workers: int) -> Dict[str, Any]:
    p = subprocess.run([os.path.join(VERIF, "bin", "check"), prop, "--tier", "quick", "--runs", str(runs), "--workers", str(workers),
                        "--no-evidence", "--no-selfcheck"], cwd=VERIF, capture_output=True, text=True,
                       env={**os.environ, "VERIF_REPO": root})
    lines = p.stdout.splitlines()
    for l in lines:
        if l.startswith("VIOLATION"):
            rp = l.split("replay=")[1].strip()
            if os.path.exists(rp):
                try:
                    os.remove(rp)
                except OSError:
                    pass
    return {"rc": p.returncode, "clauses": sorted({l.split(":")[0] for l in lines if l.startswith(prop + ".")})}


def one(job: Tuple[str, str, Any, List[str], int, float, int]) -> Dict[str, Any]:
    target, file, pred, props, k, runs, workers = job
    root = scratch()
    try:
        path = os.path.join(root, file)
        src = open(os.path.join(REPO, file), encoding="utf-8").read()
        try:
            new, desc = mutate(src, pred, k)
            compile(new, file, "exec")
        except Exception as e:  # noqa: BLE001
            return {"target": target, "file": file, "k": k, "desc": f"unparse failed: {e}", "status": "invalid"}
        open(path, "w", encoding="utf-8").write(new)
        if not tests_pass(root):
            return {"target": target, "file": file, "k": k, "desc": desc, "status": "killed_by_tests"}
        res = {p: run_check(root, p, runs, workers) for p in props}
        if any(r["rc"] == 1 for r in res.values()):
            status = "killed_by_check"
        elif any(r["rc"] == 2 for r in res.values()):
            status = "harness_error"
        else:
            status = "survived"
        return {"target": target, "file": file, "k": k, "desc": desc, "status": status,
                "checks": {p: r for p, r in res.items()}}
    finally:
        shutil.rmtree(root, ignore_errors=True)


def main() -> int:
    ap = argparse.ArgumentParser()
    ap.add_argument("--targets", default="async,query,patch,cli,cache,compound")
    ap.add_argument("--runs", type=float, default=0.3)
    ap.add_argument("--jobs", type=int, default=4)
    ap.add_argument("--limit", type=int, default=0)
    args = ap.parse_args()
    jobs = []
    for t in args.targets.split(","):
        for file, pred, props in TARGETS[t]:
            src = open(os.path.join(REPO, file), encoding="utf-8").read()
            n = count_sites(src, pred)
            for k in range(n):
                jobs.append((t, file, pred, props, k, args.runs, max(2, 16 // args.jobs)))
    if args.limit:
        jobs = jobs[:: max(1, len(jobs) // args.limit)]
    print(f"{len(jobs)} mutants")
    sys.stdout.flush()
    t0 = time.time()
    results: List[Dict[str, Any]] = []
    with ThreadPoolExecutor(max_workers=args.jobs) as ex:
        for r in ex.map(one, jobs):
            results.append(r)
            if r["status"] in ("survived", "harness_error", "killed_by_check"):
                print(f"{r['status']:16s} {r['target']:9s} {r['file']}  {r['desc']}  {r.get('checks', '')}")
                sys.stdout.flush()
    summary: Dict[str, Dict[str, int]] = {}
    for r in results:
        s = summary.setdefault(r["target"], {})
        s[r["status"]] = s.get(r["status"], 0) + 1
    out = {"summary": summary, "wall_s": round(time.time() - t0, 1), "runs_scale": args.runs,
           "not_killed": [r for r in results if r["status"] in ("survived", "harness_error")],
           "killed_by_check": [r for r in results if r["status"] == "killed_by_check"]}
    tag = args.targets.replace(",", "-")
    json.dump(out, open(os.path.join(VERIF, "selftest", f"mutation-results-{tag}.json"), "w"), indent=1)
    print(json.dumps(summary, indent=1))
    return 0


if __name__ == "__main__":
    sys.exit(main())
