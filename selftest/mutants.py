"""Corpus of small semantic changes to /repo used to demonstrate sensitivity.

Each entry: id, property it should break, file (relative to the repo root), old
text (must occur exactly once unless ``count`` is given) and new text.  Entries
with ``expect: "clean"`` are behaviour-preserving refactors that must raise no
alarm.  The corpus is development evidence: it is not part of any check's exit
status.  ``selftest/sensitivity.py`` applies one at a time to a scratch copy
outside /repo and /verif and removes the copy afterwards.
"""

MUTANTS = [
    # ------------------------------------------------------------------ C08
    dict(id="c08-prop-async-missing-key-default", prop="C08", file="jsonpath/selectors.py",
         old="""            with suppress(KeyError):
                _match = self.env.match_class(
                    filter_context=match.filter_context(),
                    obj=await self.env.getitem_async(match.obj, self.name),""",
         new="""            with suppress(IndexError):
                _match = self.env.match_class(
                    filter_context=match.filter_context(),
                    obj=(
                        await self.env.getitem_async(match.obj, self.name)
                        if self.name in match.obj or not self.shorthand
                        else None
                    ),"""),
    dict(id="c08-index-async-negative-normalised-twice", prop="C08", file="jsonpath/selectors.py",
         old="""            elif isinstance(match.obj, Sequence) and not isinstance(match.obj, str):
                norm_index = self._normalized_index(match.obj)
                with suppress(IndexError):
                    _match = self.env.match_class(
                        filter_context=match.filter_context(),
                        obj=await self.env.getitem_async(match.obj, self.index),""",
         new="""            elif isinstance(match.obj, Sequence):
                norm_index = self._normalized_index(match.obj)
                with suppress(IndexError):
                    _match = self.env.match_class(
                        filter_context=match.filter_context(),
                        obj=await self.env.getitem_async(match.obj, self.index),"""),
    dict(id="c08-index-async-norm-index-fetch", prop="C08", file="jsonpath/selectors.py",
         old="obj=await self.env.getitem_async(match.obj, self.index),",
         new="obj=await self.env.getitem_async(match.obj, norm_index),"),
    dict(id="c08-compound-async-fold-order", prop="C08", file="jsonpath/path.py",
         old="""                assert op == self.env.intersection_token
                objs = [obj for obj in objs if obj in _objs]

        return objs

    async def finditer_async(""",
         new="""                assert op == self.env.intersection_token
                objs = [obj for obj in _objs if obj in objs]

        return objs

    async def finditer_async("""),
    dict(id="c08-slice-async-skips-strings-only-sync", prop="C08", file="jsonpath/selectors.py",
         old="""        async for match in matches:
            if not isinstance(match.obj, Sequence) or self.slice.step == 0:
                continue""",
         new="""        async for match in matches:
            if (
                not isinstance(match.obj, Sequence)
                or isinstance(match.obj, str)
                or self.slice.step == 0
            ):
                continue"""),
    dict(id="c08-filter-async-infix-right-not-unwrapped", prop="C08", file="jsonpath/filter.py",
         old="""        right = await self.right.evaluate_async(context)
        if not self.logical and isinstance(right, NodeList) and len(right) == 1:
            right = right[0].obj""",
         new="""        right = await self.right.evaluate_async(context)
        if not self.logical and isinstance(right, NodeList) and len(right) == 1:
            right = right[0].obj if context.current_key != 1 else right"""),
    dict(id="c08-descent-async-visits-strings", prop="C08", file="jsonpath/selectors.py",
         old="""        async for match in matches:
            yield match
            for _match in self._expand(match):
                yield _match""",
         new="""        async for match in matches:
            yield match
            seen = 0
            for _match in self._expand(match):
                seen += 1
                if seen > 6:
                    break
                yield _match"""),
    dict(id="c08-getitem-async-never-completes-for-slices", prop="C08", file="jsonpath/env.py",
         old="""        if hasattr(obj, "__getitem_async__"):
            return await obj.__getitem_async__(key)
        return getitem(obj, key)""",
         new="""        if hasattr(obj, "__getitem_async__"):
            if isinstance(key, slice) and key.step == -1:
                import asyncio

                await asyncio.get_running_loop().create_future()  # lost wake-up
            return await obj.__getitem_async__(key)
        return getitem(obj, key)"""),
    dict(id="c08-async-filter-busy-retry", prop="C08", file="jsonpath/selectors.py",
         old="""                    try:
                        result = await expr.evaluate_async(context)
                    except JSONPathTypeError as err:
                        if not err.token:
                            err.token = self.token
                        raise

                    if result:
                        _match = self.env.match_class(
                            filter_context=match.filter_context(),
                            obj=val,""",
         new="""                    try:
                        result = await expr.evaluate_async(context)
                        while result and key == "a":
                            import asyncio

                            await asyncio.sleep(0)  # waits for a flag nobody sets
                    except JSONPathTypeError as err:
                        if not err.token:
                            err.token = self.token
                        raise

                    if result:
                        _match = self.env.match_class(
                            filter_context=match.filter_context(),
                            obj=val,"""),
    # ------------------------------------------------------------------ C09
    dict(id="c09-selfpath-not-volatile", prop="C09", file="jsonpath/filter.py",
         old="""    def __init__(self, path: JSONPath) -> None:
        super().__init__(path)
        self.volatile = True

    def __str__(self) -> str:
        return "@" + str(self.path)[1:]""",
         new="""    def __init__(self, path: JSONPath) -> None:
        super().__init__(path)
        self.volatile = bool(self.children())

    def __str__(self) -> str:
        return "@" + str(self.path)[1:]"""),
    dict(id="c09-currentkey-not-volatile", prop="C09", file="jsonpath/filter.py",
         old="""    def __init__(self) -> None:
        super().__init__()
        self.volatile = True

    def __str__(self) -> str:
        return "#\"""",
         new="""    def __init__(self) -> None:
        super().__init__()
        self.volatile = False

    def __str__(self) -> str:
        return "#\""""),
    dict(id="c09-cache-tree-hoisted-to-compile-time", prop="C09", file="jsonpath/selectors.py",
         old="""        # Compile-time check for cacheable nodes.
        self.cacheable_nodes = self.expression.cacheable_nodes()""",
         new="""        # Compile-time check for cacheable nodes.
        self.cacheable_nodes = self.expression.cacheable_nodes()
        self._tree = self.expression.cache_tree() if self.cacheable_nodes else None""",
         extra=[dict(file="jsonpath/selectors.py",
                     old="""    def resolve(  # noqa: PLR0912
        self, matches: Iterable[JSONPathMatch]
    ) -> Iterable[JSONPathMatch]:
        if self.cacheable_nodes and self.env.filter_caching:
            expr = self.expression.cache_tree()""",
                     new="""    def resolve(  # noqa: PLR0912
        self, matches: Iterable[JSONPathMatch]
    ) -> Iterable[JSONPathMatch]:
        if self.cacheable_nodes and self.env.filter_caching:
            expr = self._tree"""),
                dict(file="jsonpath/selectors.py", old='    __slots__ = ("expression", "cacheable_nodes")', new='    __slots__ = ("expression", "cacheable_nodes", "_tree")')]),
    dict(id="c09-shared-tree-reset-at-start", prop="C09", file="jsonpath/selectors.py",
         old="""        # Compile-time check for cacheable nodes.
        self.cacheable_nodes = self.expression.cacheable_nodes()""",
         new="""        # Compile-time check for cacheable nodes.
        self.cacheable_nodes = self.expression.cacheable_nodes()
        self._tree = None""",
         extra=[dict(file="jsonpath/selectors.py",
                     old="""    def resolve(  # noqa: PLR0912
        self, matches: Iterable[JSONPathMatch]
    ) -> Iterable[JSONPathMatch]:
        if self.cacheable_nodes and self.env.filter_caching:
            expr = self.expression.cache_tree()""",
                     new="""    def resolve(  # noqa: PLR0912
        self, matches: Iterable[JSONPathMatch]
    ) -> Iterable[JSONPathMatch]:
        if self.cacheable_nodes and self.env.filter_caching:
            if self._tree is None:
                self._tree = self.expression.cache_tree()
            expr = self._tree
            _reset_cache(expr)"""),
                dict(file="jsonpath/selectors.py", old='    __slots__ = ("expression", "cacheable_nodes")', new='    __slots__ = ("expression", "cacheable_nodes", "_tree")'),
                dict(file="jsonpath/selectors.py", old="class FilterContext:\n", new="""def _reset_cache(expr: object) -> None:
    from .filter import CachingFilterExpression, walk

    for node in walk(expr):  # type: ignore[arg-type]
        if isinstance(node, CachingFilterExpression):
            node._cached = CachingFilterExpression._UNSET


class FilterContext:
""")]),
    dict(id="c09-cache-tree-lost-copy", prop="C09", file="jsonpath/filter.py",
         old="""            if expr.volatile:
                _expr = copy.copy(expr)""",
         new="""            if expr.volatile:
                _expr = expr"""),
    dict(id="c09-parser-stashes-stream-on-self", prop="C09", file="jsonpath/parse.py",
         old="""        if stream.current.kind in {TOKEN_ROOT, TOKEN_FAKE_ROOT}:
            stream.next_token()
        yield from self.parse_path(stream, in_filter=False)

        if stream.current.kind not in (TOKEN_EOF, TOKEN_INTERSECTION, TOKEN_UNION):""",
         new="""        self._stream = stream
        if stream.current.kind in {TOKEN_ROOT, TOKEN_FAKE_ROOT}:
            stream.next_token()
        yield from self.parse_path(self._stream, in_filter=False)
        stream = self._stream

        if stream.current.kind not in (TOKEN_EOF, TOKEN_INTERSECTION, TOKEN_UNION):"""),
    dict(id="c09-filter-writes-document", prop="C09", file="jsonpath/filter.py",
         old="""    def evaluate(self, context: FilterContext) -> object:
        return NodeList(self.path.finditer(context.root))""",
         new="""    def evaluate(self, context: FilterContext) -> object:
        rv = NodeList(self.path.finditer(context.root))
        if len(rv) > 2 and isinstance(rv[0].obj, list):
            rv[0].obj.sort(key=repr)
        return rv"""),
    dict(id="c09-module-memo-keyed-by-text-only", prop="C09", file="jsonpath/filter.py",
         old="""    def evaluate(self, context: FilterContext) -> object:
        return NodeList(self.path.finditer(context.extra_context))""",
         new="""    _memo: dict = {}

    def evaluate(self, context: FilterContext) -> object:
        key = str(self)
        if key not in self._memo:
            self._memo[key] = NodeList(self.path.finditer(context.extra_context))
        return self._memo[key]"""),
    # ------------------------------------------------------------------ C11
    dict(id="c11-match-returns-last", prop="C11", file="jsonpath/path.py",
         old="""        try:
            return next(iter(self.finditer(data, filter_context=filter_context)))
        except StopIteration:
            return None

    def query(
        self,
        data: Union[str, IOBase, Sequence[Any], Mapping[str, Any]],
        *,
        filter_context: Optional[FilterContextVars] = None,
    ) -> Query:
        \"\"\"Return a `Query` iterator over matches found by applying this path to _data_.

        Arguments:
            data: A JSON document or Python object implementing the `Sequence`
                or `Mapping` interfaces.
            filter_context: Arbitrary data made available to filters using
                the _filter context_ selector.

        Returns:
            A query iterator.

        Raises:
            JSONPathSyntaxError: If the path is invalid.
            JSONPathTypeError: If a filter expression attempts to use types in
                an incompatible way.
        \"\"\"
        return Query(self.finditer(data, filter_context=filter_context), self.env)

    def empty(self) -> bool:""",
         new="""        rv = None
        for rv in self.finditer(data, filter_context=filter_context):
            if not isinstance(rv.obj, (list, dict)):
                break
        return rv

    def query(
        self,
        data: Union[str, IOBase, Sequence[Any], Mapping[str, Any]],
        *,
        filter_context: Optional[FilterContextVars] = None,
    ) -> Query:
        return Query(self.finditer(data, filter_context=filter_context), self.env)

    def empty(self) -> bool:"""),
    dict(id="c11-finditer-intersection-by-identity", prop="C11", file="jsonpath/path.py",
         old="    return (match for match in matches if match.obj in objs)",
         new="    return (match for match in matches if any(match.obj is o for o in objs))"),
    dict(id="c11-env-query-drops-filter-context", prop="C11", file="jsonpath/env.py",
         old="        return Query(self.finditer(path, data, filter_context=filter_context), self)",
         new="        return Query(self.finditer(path, data), self)"),
    dict(id="c11-compound-findall-union-dedup", prop="C11", file="jsonpath/path.py",
         old="""            if op == self.env.union_token:
                objs.extend(_objs)
            else:
                assert op == self.env.intersection_token, op""",
         new="""            if op == self.env.union_token:
                objs.extend(o for o in _objs if o not in objs)
            else:
                assert op == self.env.intersection_token, op"""),
    dict(id="c11-load-data-text-bom-strip", prop="C11", file="jsonpath/_data.py",
         old="""    if isinstance(data, IOBase):
        return json.loads(data.read())""",
         new="""    if isinstance(data, IOBase):
        return json.loads(data.read(4096))"""),
    # ------------------------------------------------------------------ C12
    dict(id="c12-drop-off-by-one", prop="C12", file="jsonpath/fluent_api.py",
         old="next(itertools.islice(self._it, n, n), None)",
         new="next(itertools.islice(self._it, n - 1, n - 1), None)"),
    dict(id="c12-lazy-take", prop="C12", file="jsonpath/fluent_api.py",
         old="        return Query(list(itertools.islice(self._it, n)), self._env)",
         new="        return Query(itertools.islice(self._it, n), self._env)"),
    dict(id="c12-tee-same-iterator", prop="C12", file="jsonpath/fluent_api.py",
         old="        return tuple(Query(it, self._env) for it in itertools.tee(self._it, n))",
         new="        its = itertools.tee(self._it, max(n, 1))\n        return tuple(Query(its[0] if i % 2 == 0 else its[-1], self._env) for i in range(n))"),
    dict(id="c12-tail-via-list-slice-wrong-zero", prop="C12", file="jsonpath/fluent_api.py",
         old="        self._it = iter(collections.deque(self._it, maxlen=n))",
         new="        self._it = iter(list(self._it)[-n:])"),
    dict(id="c12-negative-limit-consumes", prop="C12", file="jsonpath/fluent_api.py",
         old="""        if n < 0:
            raise ValueError("can't limit by a negative number of matches")""",
         new="""        if n < 0:
            next(self._it, None)
            raise ValueError("can't limit by a negative number of matches")"""),
    # ------------------------------------------------------------------ C15
    dict(id="c15-builder-replace-creates-add", prop="C15", file="jsonpath/patch.py",
         old="        self.ops.append(OpReplace(path=pointer, value=value))",
         new="        self.ops.append(OpAdd(path=pointer, value=value))"),
    dict(id="c15-move-asdict-swaps", prop="C15", file="jsonpath/patch.py",
         old="""        return {"op": self.name, "from": str(self.source), "path": str(self.dest)}


class OpCopy(Op):""",
         new="""        return {"op": self.name, "from": str(self.dest), "path": str(self.source)}


class OpCopy(Op):"""),
    dict(id="c15-apply-pops-ops", prop="C15", file="jsonpath/patch.py",
         old="        for i, op in enumerate(self.ops):\n            try:\n                _data = op.apply(_data)",
         new="        ops, self.ops = self.ops, [o for o in self.ops if o.name != \"test\"]\n        for i, op in enumerate(ops):\n            try:\n                _data = op.apply(_data)"),
    dict(id="c15-add-root-by-reference", prop="C15", file="jsonpath/patch.py",
         old="""            # Replace the root object.
            # The following op, if any, will raise a JSONPatchError if needed.
            return copy.deepcopy(self.value)  # type: ignore

        target = self.path.parts[-1]
        if isinstance(parent, MutableSequence):
            if obj is UNDEFINED:
                if target == "-":
                    parent.append(copy.deepcopy(self.value))
                else:
                    raise JSONPatchError("index out of range")
            else:
                parent.insert(int(target), copy.deepcopy(self.value))
        elif isinstance(parent, MutableMapping):
            parent[target] = copy.deepcopy(self.value)
        else:
            raise JSONPatchError(
                f"unexpected operation on {parent.__class__.__name__!r}"
            )
        return data

    def asdict(self) -> Dict[str, object]:""",
         new="""            # Replace the root object.
            # The following op, if any, will raise a JSONPatchError if needed.
            return self.value  # type: ignore

        target = self.path.parts[-1]
        if isinstance(parent, MutableSequence):
            if obj is UNDEFINED:
                if target == "-":
                    parent.append(copy.deepcopy(self.value))
                else:
                    raise JSONPatchError("index out of range")
            else:
                parent.insert(int(target), copy.deepcopy(self.value))
        elif isinstance(parent, MutableMapping):
            parent[target] = copy.deepcopy(self.value)
        else:
            raise JSONPatchError(
                f"unexpected operation on {parent.__class__.__name__!r}"
            )
        return data

    def asdict(self) -> Dict[str, object]:"""),
    dict(id="c15-replace-in-array-by-reference", prop="C15", file="jsonpath/patch.py",
         old="            parent[int(self.path.parts[-1])] = copy.deepcopy(self.value)",
         new="            parent[int(self.path.parts[-1])] = self.value"),
    dict(id="c15-addap-loaded-as-add", prop="C15", file="jsonpath/patch.py",
         old="""            elif op == "addap":
                self.addap(""",
         new="""            elif op == "addap":
                self.add("""),
    dict(id="c15-test-op-normalises-value", prop="C15", file="jsonpath/patch.py",
         old="""        _, obj = self.path.resolve_parent(data)
        if not obj == self.value:
            raise JSONPatchTestFailure
        return data""",
         new="""        _, obj = self.path.resolve_parent(data)
        if isinstance(self.value, list):
            self.value.sort(key=repr)
        if not obj == self.value:
            raise JSONPatchTestFailure
        return data"""),
    # ------------------------------------------------------------------ C18
    dict(id="c18-remove-pointer-except", prop="C18", file="jsonpath/cli.py",
         old="""    except JSONPointerError as err:
        if args.debug:
            raise
        sys.stderr.write(str(err) + "\\n")
        sys.exit(1)""",
         new="""    except jsonpath.JSONPointerResolutionError as err:
        if args.debug:
            raise
        sys.stderr.write(str(err) + "\\n")
        sys.exit(1)"""),
    dict(id="c18-pretty-ignored-for-patch", prop="C18", file="jsonpath/cli.py",
         old="""    indent = INDENT if args.pretty else None
    json.dump(patched, args.output, indent=indent)""",
         new="""    indent = None
    json.dump(patched, args.output, indent=indent)"""),
    dict(id="c18-uri-decode-not-forwarded", prop="C18", file="jsonpath/cli.py",
         old="""            unicode_escape=not args.no_unicode_escape,
            uri_decode=args.uri_decode,
        )
    except (json.JSONDecodeError, UnicodeDecodeError) as err:
        if args.debug:
            raise
        sys.stderr.write(f"target document json decode error: {err}\\n")
        sys.exit(1)
    except JSONPointerError as err:""",
         new="""            unicode_escape=not args.no_unicode_escape,
        )
    except (json.JSONDecodeError, UnicodeDecodeError) as err:
        if args.debug:
            raise
        sys.stderr.write(f"target document json decode error: {err}\\n")
        sys.exit(1)
    except JSONPointerError as err:"""),
    dict(id="c18-exit-zero-on-type-error", prop="C18", file="jsonpath/cli.py",
         old="""    except JSONPathTypeError as err:
        if args.debug:
            raise
        sys.stderr.write(f"json path type error: {err}\\n")
        sys.exit(1)
    except JSONPathIndexError as err:""",
         new="""    except JSONPathTypeError as err:
        if args.debug:
            raise
        sys.stderr.write(f"json path type error: {err}\\n")
        sys.exit(0)
    except JSONPathIndexError as err:"""),
    dict(id="c18-no-type-checks-inverted-with-r", prop="C18", file="jsonpath/cli.py",
         old="            well_typed=not args.no_type_checks,",
         new="            well_typed=not args.no_type_checks or args.path_file is not None,"),
    dict(id="c18-multi-line-error", prop="C18", file="jsonpath/cli.py",
         old="""        sys.stderr.write(f"json path syntax error: {err}\\n")""",
         new="""        sys.stderr.write(f"json path syntax error:\\n  {err}\\n")"""),
    # ------------------------------------------------------------------ refactors (must stay clean)
    dict(id="ok-caching-removed", prop="C09", file="jsonpath/selectors.py", expect="clean", count=2,
         old="        if self.cacheable_nodes and self.env.filter_caching:",
         new="        if False and self.cacheable_nodes and self.env.filter_caching:"),
    dict(id="ok-query-over-lists", prop="C12", file="jsonpath/fluent_api.py", expect="clean",
         old="        self._it = iter(collections.deque(self._it, maxlen=n))",
         new="        buf = list(self._it)\n        self._it = iter(buf[max(len(buf) - n, 0) :] if n else [])"),
    dict(id="ok-cli-decode-message-reworded", prop="C18", file="jsonpath/cli.py", expect="clean", count=3,
         old='        sys.stderr.write(f"target document json decode error: {err}\\n")',
         new='        sys.stderr.write(f"error: could not decode target document: {err}\\n")'),
    dict(id="ok-patch-copy-at-construction-too", prop="C15", file="jsonpath/patch.py", expect="clean",
         old="""    def __init__(self, path: JSONPointer, value: object) -> None:
        self.path = path
        self.value = value

    def apply(
        self, data: Union[MutableSequence[object], MutableMapping[str, object]]
    ) -> Union[MutableSequence[object], MutableMapping[str, object]]:
        \"\"\"Apply this patch operation to _data_.\"\"\"
        parent, obj = self.path.resolve_parent(data)
        if parent is None:
            # Replace the root object.""",
         new="""    def __init__(self, path: JSONPointer, value: object) -> None:
        self.path = path
        self.value = copy.deepcopy(value)

    def apply(
        self, data: Union[MutableSequence[object], MutableMapping[str, object]]
    ) -> Union[MutableSequence[object], MutableMapping[str, object]]:
        \"\"\"Apply this patch operation to _data_.\"\"\"
        parent, obj = self.path.resolve_parent(data)
        if parent is None:
            # Replace the root object."""),
    dict(id="ok-async-shares-sync-helper", prop="C08", file="jsonpath/selectors.py", expect="clean",
         old="""        async for match in matches:
            if isinstance(match.obj, str):
                continue
            if isinstance(match.obj, Mapping):""",
         new="""        async for match in matches:
            if isinstance(match.obj, (str, bytes)):
                continue
            if isinstance(match.obj, Mapping):"""),
    dict(id="ok-compound-preloads-text-too", prop="C11", file="jsonpath/path.py", expect="clean", count=4,
         old="""        if isinstance(data, IOBase):
            # Read a file-like object once, not once per operand.
            data = load_data(data)
""",
         new="""        if isinstance(data, IOBase) or (
            isinstance(data, str) and data.lstrip()[:1] in ("[", "{")
        ):
            # Read a file-like object once, not once per operand.
            data = load_data(data)
"""),
    # ---- legitimate changes named by the oracle review (DESIGN 10.9): each must stay quiet
    dict(id="ok-cli-compact-separators", prop="C18", file="jsonpath/cli.py", expect="clean", count=3,
         old="args.output, indent=indent)",
         new='args.output, indent=indent, separators=None if indent else (",", ":"))'),
    dict(id="ok-cli-indent-4", prop="C18", file="jsonpath/cli.py", expect="clean",
         old="INDENT = 2", new="INDENT = 4"),
    dict(id="ok-cli-trailing-newline", prop="C18", file="jsonpath/cli.py", expect="clean",
         old="""    indent = INDENT if args.pretty else None
    json.dump(matches, args.output, indent=indent)""",
         new="""    indent = INDENT if args.pretty else None
    json.dump(matches, args.output, indent=indent)
    args.output.write("\\n")"""),
    dict(id="ok-cli-expression-file-rstrip-newline", prop="C18", file="jsonpath/cli.py", expect="clean",
         old="query = args.path_file.read().strip()",
         new='query = args.path_file.read().rstrip("\\r\\n")'),
    dict(id="ok-cli-opens-files-itself", prop="C18", file="jsonpath/cli.py", expect="clean",
         old="""    indent = INDENT if args.pretty else None
    json.dump(matches, args.output, indent=indent)""",
         new="""    indent = INDENT if args.pretty else None
    if args.output is not sys.stdout:
        name = args.output.name
        args.output.close()
        with open(name, "w", encoding="utf-8") as fd:
            json.dump(matches, fd, indent=indent)
        return
    json.dump(matches, args.output, indent=indent)"""),
    dict(id="ok-finditer-eager", prop="C11", file="jsonpath/path.py", expect="clean",
         old="""        for selector in self.selectors:
            matches = selector.resolve(matches)

        return matches""",
         new="""        for selector in self.selectors:
            matches = selector.resolve(matches)

        return iter(list(matches))"""),
    dict(id="ok-finditer-eager-c09", prop="C09", file="jsonpath/path.py", expect="clean",
         old="""        for selector in self.selectors:
            matches = selector.resolve(matches)

        return matches""",
         new="""        for selector in self.selectors:
            matches = selector.resolve(matches)

        return iter(list(matches))"""),
    dict(id="ok-finditer-eager-c12", prop="C12", file="jsonpath/path.py", expect="clean",
         old="""        for selector in self.selectors:
            matches = selector.resolve(matches)

        return matches""",
         new="""        for selector in self.selectors:
            matches = selector.resolve(matches)

        return iter(list(matches))"""),
    dict(id="ok-async-load-in-executor", prop="C08", file="jsonpath/path.py", expect="clean",
         old="""        \"\"\"An async version of `finditer()`.\"\"\"
        _data = load_data(data)

        async def root_iter() -> AsyncIterable[JSONPathMatch]:
            yield self.env.match_class(""",
         new="""        \"\"\"An async version of `finditer()`.\"\"\"
        import asyncio

        if isinstance(data, IOBase):
            _data = await asyncio.get_running_loop().run_in_executor(None, load_data, data)
        else:
            _data = load_data(data)

        async def root_iter() -> AsyncIterable[JSONPathMatch]:
            yield self.env.match_class("""),
    dict(id="ok-patch-refuses-non-list-iterables", prop="C15", file="jsonpath/patch.py", expect="clean",
         old="""        self.uri_decode = uri_decode
        if ops:
            self._load(ops)""",
         new="""        self.uri_decode = uri_decode
        if ops is not None and not isinstance(ops, (str, IOBase, list)):
            raise JSONPatchError("expected a JSON Patch document or a list of operations")
        if ops:
            self._load(ops)"""),
    # ---- legitimate changes tried by the second oracle review (DESIGN 10.13): each must stay quiet
    dict(id="ok-cli-module-level-parser", prop="C18", file="jsonpath/cli.py", expect="clean",
         old="""def main() -> None:
    \"\"\"CLI argument parser entry point.\"\"\"
    parser = setup_parser()
    args = parser.parse_args()""",
         new="""_PARSER = setup_parser()


def main() -> None:
    \"\"\"CLI argument parser entry point.\"\"\"
    args = _PARSER.parse_args()"""),
    dict(id="ok-cli-closes-its-output", prop="C18", file="jsonpath/cli.py", expect="clean", count=3,
         old="args.output, indent=indent)",
         new="args.output, indent=indent)\n    args.output.close()"),
    dict(id="ok-cli-stdin-as-bytes", prop="C18", file="jsonpath/cli.py", expect="clean", count=3,
         old="        default=sys.stdin,",
         new="        default=sys.stdin.buffer,"),
    dict(id="ok-cli-sorted-keys-when-pretty", prop="C18", file="jsonpath/cli.py", expect="clean", count=3,
         old="args.output, indent=indent)",
         new="args.output, indent=indent, sort_keys=bool(args.pretty))"),
    dict(id="ok-load-data-tests-textiobase", prop="C11", file="jsonpath/_data.py", expect="clean",
         old="""    if isinstance(data, IOBase):
        return json.loads(data.read())""",
         new="""    if isinstance(data, IOBase):
        import io

        raw = data.read()
        if isinstance(data, io.TextIOBase) or isinstance(raw, str):
            return json.loads(raw)
        return json.loads(bytes(raw).decode(json.detect_encoding(bytes(raw)), "surrogatepass"))"""),
    dict(id="ok-asdicts-read-only-views", prop="C15", file="jsonpath/patch.py", expect="clean",
         old="        return [op.asdict() for op in self.ops]",
         new="        import types\n\n        return [types.MappingProxyType(op.asdict()) for op in self.ops]"),
    dict(id="ok-async-yields-per-node", prop="C08", file="jsonpath/selectors.py", expect="clean", count=7,
         old="        async for match in matches:\n",
         new="        async for match in matches:\n            await __import__(\"asyncio\").sleep(0)\n"),
    dict(id="ok-compile-behind-semaphore-and-event", prop="C09", file="jsonpath/env.py", expect="clean",
         old="    def compile(self, path: str) -> Union[JSONPath, CompoundJSONPath]:  # noqa: A003",
         new="""    def compile(self, path: str) -> Union[JSONPath, CompoundJSONPath]:  # noqa: A003
        import threading

        cond = self.__dict__.setdefault("_cond", threading.Condition())
        sem = self.__dict__.setdefault("_sem", threading.BoundedSemaphore(1))
        with cond:
            while self.__dict__.get("_busy"):
                cond.wait()
            self.__dict__["_busy"] = True
        try:
            with sem:
                return self._compile(path)
        finally:
            with cond:
                self.__dict__["_busy"] = False
                cond.notify_all()

    def _compile(self, path: str) -> Union[JSONPath, CompoundJSONPath]:"""),
]
