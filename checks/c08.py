"""C08 - the async API returns exactly what the sync API returns.

System under simulation: the whole ``jsonpath`` package on real
``asyncio.Task``/``Future``/async generators.  Stubs: ``SimLoop`` (virtual
clock, seeded choice of the next ready handle) in place of the selector event
loop, and ``SimMap``/``SimSeq`` as the (possibly remote, lazily loaded)
document store whose async getter suspends, delays and fails under simulator
control.  Several evaluations are in flight at once; tasks are cancelled at
arbitrary loop steps and their jobs re-issued.  Oracle: the synchronous twin on
the very same document objects, evaluated in isolation before (and again after)
the concurrent phase.
"""
from __future__ import annotations

import asyncio
import copy
import gc
import io
import json
from collections.abc import Mapping
from collections.abc import Sequence
from typing import Any
from typing import Dict
from typing import Iterator
from typing import List
from typing import Optional
from typing import Tuple

import jsonpath
from jpsim import core
from jpsim import gen_json
from jpsim import gen_query
from jpsim import tripwire
from jpsim.core import Ctx
from jpsim.core import Violation
from jpsim.fs import SimFile
from jpsim.loop import SimBudget
from jpsim.loop import SimDeadlock
from jpsim.loop import SimLoop
from jpsim.loop import run_sim
from jpsim.runner import ddmin_list
from jpsim.runner import simpler_json
from jpsim.store import SimMap
from jpsim.store import SimSeq
from jpsim.store import SimStoreError
from jpsim.store import Store
from jpsim.store import sites
from jpsim.store import wrap

PROPERTY = "C08"
BUDGET = {
    "quick": {"faultfree": 50000, "faulty": 50000},
    "thorough": {"faultfree": 1000000, "faulty": 1000000},
}
FAULT_KINDS = ["delay", "yield", "stall", "cancel", "storeerr", "badtext"]
TIME_UNIT = "virtual seconds on SimLoop's clock (orders getter completions and stalls); logical steps = loop iterations"
RULE = (
    "one run = 1-3 documents (each also wrapped in SimMap/SimSeq at all or some levels), 3-10 jobs (query, document, "
    "filter context, async entry point) spread over 1-6 client tasks on one simulated event loop; every ready-handle "
    "choice and every async item fetch (return / yield / virtual delay) is a seeded choice; 'faulty' runs add store "
    "errors and task cancellations with re-issue. Non-trivial: >= 2 evaluations were simultaneously in flight, >= 1 "
    "getter call actually suspended and >= 1 job returned a non-empty result; distinct by event-log digest."
)
STATES_MEASURE = "distinct (selector kind, kind of value it was applied to, wrapped?) triples seen by stepping compiled.selectors on the sync side"
REAL = ["jsonpath package (selectors.resolve_async, filter.evaluate_async, path.*_async, env.getitem_async)", "CPython asyncio Task/Future/gather/async generators"]
STUB = ["SimLoop (asyncio.BaseEventLoop subclass: virtual clock, seeded ready-handle choice, no selector)", "SimMap/SimSeq documents with __getitem_async__"]
ASSUMPTIONS = [
    "the synchronous twin on the same document objects is the oracle (a defect identical in both halves is invisible)",
    "exception messages are not compared, only classes",
    "with injected store errors only the exception class is compared, not how many matches were produced first (a correct async implementation may prefetch)",
    "a cancelled evaluation has no sync counterpart; only its re-issue is judged",
]
PROBES = [
    "wildcard_x_string", "slice_x_string", "filter_x_string", "descendant_x_scalar", "index_x_object",
    "filter_raised_type_error", "async_text_or_stream_document", "compound_intersect_async_store", "cancel_landed_in_getter", "error_parity_case", "in_flight_ge_3", "refused_query_text",
]

ENTRIES = [
    "module.findall_async", "module.finditer_async", "env.findall_async", "env.finditer_async",
    "compiled.findall_async", "compiled.finditer_async",
]
_SCRATCH_ENV = tripwire.register(jsonpath.JSONPathEnvironment())
tripwire.register(jsonpath.DEFAULT_ENV)  # a constant, stateless addition to the module-level environment


def generate(seed: int, config: str, tier: str) -> Dict[str, Any]:
    rng = core.stream(seed, "gen")
    frng = core.stream(seed, "fault")
    faulty = config == "faulty"
    prof = gen_json.profile(rng)
    prof["stringy"] = prof["stringy"] or rng.random() < 0.3
    docs = [gen_json.gen_document(rng, prof) for _ in range(rng.randint(1, 3))]
    if rng.random() < 0.5:
        # documents that differ only in a few places (what a state leak between concurrent evaluations would mix up)
        base = docs[0]
        docs = [base] + [_variant(rng, base) for _ in range(rng.randint(1, 3))]
    if rng.random() < 0.06:
        # a JSON document that is a string -- whose content happens to look like JSON itself.  Only ever supplied as
        # JSON text or a stream (a Python str handed over as "the parsed value" would be taken for JSON text)
        docs.append(rng.choice(["12", "[1, 2]", "{\"a\": [1, 2]}", "abc", "", "null"]))
    wraps = []
    for _ in docs:
        mode = rng.choice(["all", "all", "depths", "depths", "none"])
        wraps.append({"mode": mode, "depths": sorted({rng.randrange(4) for _ in range(rng.randint(1, 3))})})
    ctxdoc = {"a": rng.choice([1, 2, "a"]), "b": [2, 3], "x": {"y": 10}} if rng.random() < 0.35 else None
    opts = gen_query.default_opts(rng)
    opts["p_ctx"] = 0.35 if ctxdoc is not None else 0.0
    if ctxdoc is not None:
        opts["p_ext"] = max(opts["p_ext"], 0.15)
        opts["max_filter_depth"] = max(opts["max_filter_depth"], 2)
        opts["p_filter"] = max(opts["p_filter"], 0.3)
    opts["p_flat"] = 0.2
    if rng.random() < 0.15:
        opts["p_trip"] = 0.2  # filters that die with JSONPathTypeError at evaluation time (jpsim/tripwire.py)
    queries: List[str] = []
    for _ in range(rng.randint(2, 6)):
        d = rng.choice([x for x in docs if not isinstance(x, str)])
        queries.extend(gen_query.gen_queries(rng, _SCRATCH_ENV, d, 1, ctx_doc=ctxdoc, opts=opts, p_compound=0.2))
    if rng.random() < 0.1:
        # a text the environment refuses: the async entry points that take text must refuse it the same way
        base = rng.choice(queries)
        bad = rng.choice([base + "[", base + " |", "$[?nosuch(@.a)]", "$[?length(@.*) > 1]", "$[99999999999999999999]", "$..", base + "[?@.a ==]", ""])
        queries.append(bad)
    deep = tier == "thorough"  # larger worlds in the thorough tier
    n_clients = rng.randint(1, 8 if deep else 6)
    n_jobs = rng.randint(3, 16 if deep else 10)
    clients: List[List[Dict[str, Any]]] = [[] for _ in range(n_clients)]
    # swarm bias: in half of the runs most jobs hammer one compiled query object from several tasks
    focus = (rng.randrange(len(queries)), rng.choice(["compiled.findall_async", "compiled.finditer_async"])) if rng.random() < 0.5 else None
    for _ in range(n_jobs):
        fq, fe = focus if (focus is not None and rng.random() < 0.7) else (rng.randrange(len(queries)), rng.choice(ENTRIES))
        clients[rng.randrange(n_clients)].append(
            {
                "q": fq,
                "d": rng.randrange(len(docs)),
                "entry": fe,
                "stall": rng.random() < 0.3,
                # mostly the (wrapped) object document; sometimes JSON text or a single-use stream
                "form": rng.choice(["obj"] * 8 + ["text", "stringio", "bytesio", "simfile"]),
            }
        )
    clients = [c for c in clients if c]
    for c in clients:
        for job in c:
            if isinstance(docs[job["d"]], str) and job["form"] == "obj":
                job["form"] = rng.choice(["text", "stringio", "bytesio", "simfile"])
    faults: Dict[str, Any] = {"storeerr": [], "cancels": []}
    if faulty and frng.random() < 0.1:
        # the text / stream forms of one document are cut short: undecodable for sync and async alike
        faults["badtext"] = [frng.randrange(len(docs)), frng.choice([1, 2, 5, 9])]
    if faulty:
        kinds = [k for k in ("storeerr", "cancel") if frng.random() < 0.7] or ["cancel"]
        if "storeerr" in kinds:
            for _ in range(frng.choice([1, 1, 2])):
                di = frng.randrange(len(docs))
                ss = sites(docs[di], f"d{di}")
                if ss:
                    p, k = frng.choice(ss)
                    faults["storeerr"].append([p, k, frng.choice(["store", "store", "key", "index", "type", "value"])])
        if "cancel" in kinds:
            for _ in range(frng.choice([0, 1, 1, 2])):
                faults["cancels"].append([frng.randrange(1, 6 + 4 * n_jobs), frng.randrange(len(clients))])
            # plus cancellations decided by the scheduler while a job is in flight (lands inside operations)
            faults["cancel_budget"] = frng.choice([1, 1, 2, 3])
    plan = {"docs": docs, "wraps": wraps, "ctx": ctxdoc, "queries": queries, "clients": clients, "faults": faults}
    knobs = {"p_sched": rng.choice([0.2, 0.4, 0.6]), "p_get": rng.choice([0.2, 0.5, 0.8]),
             "filter_caching": rng.random() < 0.7, "well_typed": rng.random() < 0.8}
    return {"property": PROPERTY, "config": config, "seed": seed, "knobs": knobs, "plan": plan}


def _variant(rng: Any, doc: Any) -> Any:
    d = copy.deepcopy(doc)
    leaves = [(l, v) for l, v in gen_json.walk(d) if l and not isinstance(v, (dict, list))]
    for _ in range(rng.randint(1, 3)):
        if not leaves:
            break
        l, _v = rng.choice(leaves)
        node = d
        for key in l[:-1]:
            node = node[key]
        node[l[-1]] = rng.choice(gen_json.SCALARS)
    if isinstance(d, dict) and d and rng.random() < 0.3:
        del d[rng.choice(list(d))]
    return d


def _kind(v: Any) -> str:
    if isinstance(v, str):
        return "string"
    if isinstance(v, Mapping):
        return "object"
    if isinstance(v, Sequence):
        return "array"
    return "scalar"


def _stage_states(ctx: Ctx, compiled: Any, data: Any, fctx: Any) -> None:
    """Which selector kinds were applied to which kinds of value (sync side, no hook)."""
    sels = getattr(compiled, "selectors", None)
    if sels is None:
        return
    try:
        matches = list(compiled.__class__(env=compiled.env, selectors=(), fake_root=compiled.fake_root).finditer(data, filter_context=fctx))
        for sel in sels:
            names = [type(sel).__name__]
            items = getattr(sel, "items", None)
            if items is not None:
                names = [type(i).__name__ for i in items]
            for m in matches[:12]:
                wrapped = isinstance(m.obj, (SimMap, SimSeq))
                for nm in names:
                    k = _kind(m.obj)
                    ctx.state(nm, k, "wrapped" if wrapped else "plain")
                    if nm == "WildSelector" and k == "string":
                        ctx.count("probe.wildcard_x_string")
                    elif nm == "SliceSelector" and k == "string":
                        ctx.count("probe.slice_x_string")
                    elif nm == "Filter" and k == "string":
                        ctx.count("probe.filter_x_string")
                    elif nm == "RecursiveDescentSelector" and k in ("scalar", "string"):
                        ctx.count("probe.descendant_x_scalar")
                    elif nm == "IndexSelector" and k == "object":
                        ctx.count("probe.index_x_object")
            matches = list(sel.resolve(matches))
    except Exception:  # noqa: BLE001
        return


class _Ref:
    __slots__ = ("ms", "exc", "fetches")

    def __init__(self, ms: List[Any], exc: Optional[str], fetches: int) -> None:
        self.ms = ms
        self.exc = exc
        self.fetches = fetches

    def show(self, values_only: bool = False) -> str:
        body: Any = [_untj(m[2]) for m in self.ms] if values_only or (self.ms and self.ms[0][0] is None) else [[m[0], list(m[1]), _untj(m[2])] for m in self.ms]
        s = core.short(body, 300)
        return s + (f" then raises {self.exc}" if self.exc else "")


def _untj(t: Any) -> Any:
    if not isinstance(t, tuple) or not t:
        return t
    k = t[0]
    if k == "n":
        return None
    if k in ("b", "i", "s"):
        return t[1]
    if k == "f":
        return float(t[1])
    if k == "o":
        return {a: _untj(b) for a, b in t[1]}
    if k == "l":
        return [_untj(x) for x in t[1]]
    return repr(t)


def _obs(m: Any) -> Tuple[str, Tuple[Any, ...], Any]:
    return (m.path, tuple(m.parts), core.tj(m.obj))


def execute(spec: Dict[str, Any], ctx: Ctx) -> None:
    plan = spec["plan"]
    knobs = spec.get("knobs", {})
    store = Store(ctx.choose, p_get=float(knobs.get("p_get", 0.4)))
    for f in plan["faults"]["storeerr"]:
        store.failing[(f[0], f[1])] = f[2] if len(f) > 2 else "store"
        ctx.count("fault.storeerr.configured")
    docs_w = [wrap(copy.deepcopy(d), store, w["mode"], w["depths"], 0, f"d{i}") for i, (d, w) in enumerate(zip(plan["docs"], plan["wraps"]))]
    fctx = plan["ctx"]
    env = tripwire.register(jsonpath.JSONPathEnvironment(
        filter_caching=bool(knobs.get("filter_caching", True)), well_typed=bool(knobs.get("well_typed", True))
    ))
    ctx.state("env", "caching" if knobs.get("filter_caching", True) else "nocache", "typed" if knobs.get("well_typed", True) else "untyped")
    texts = plan["queries"]
    compiled: List[Any] = []
    for t in texts:
        try:
            compiled.append(env.compile(t))
        except Exception:  # noqa: BLE001 -- a refused text: only the entry points that take text can be given it
            compiled.append(None)
            ctx.count("probe.refused_query_text")
    kw: Dict[str, Any] = {"filter_context": fctx} if fctx is not None else {}
    strict_prefix = not plan["faults"]["storeerr"]

    def data_for(form: str, di: int) -> Any:
        if form == "obj":
            return docs_w[di]
        text = json.dumps(plan["docs"][di])
        bt = plan["faults"].get("badtext")
        if bt and bt[0] % len(plan["docs"]) == di:
            text = text[: max(1, len(text) - int(bt[1]))]
            ctx.count("fault.badtext.fired")
        if form == "text":
            return text
        if form == "stringio":
            return io.StringIO(text)
        if form == "bytesio":
            return io.BytesIO(text.encode())
        return SimFile(text.encode(), text=False, name="doc.json", mode="rb", max_read=1 + ctx.seed % 13)

    def sync_ref(level: str, meth: str, qi: int, di: int, form: str = "obj") -> _Ref:
        """The synchronous twin of one async entry point, on the same document objects."""
        before = store.sync_gets
        ms: List[Any] = []
        exc: Optional[str] = None
        name = "findall" if meth == "findall_async" else "finditer"
        try:
            data = data_for(form, di)
            if level == "module":
                res = getattr(jsonpath, name)(texts[qi], data, **kw)
            elif level == "env":
                res = getattr(env, name)(texts[qi], data, **kw)
            else:
                res = getattr(compiled[qi], name)(data, **kw)
            if name == "findall":
                ms = [(None, (), core.tj(v)) for v in res]
            else:
                for m in res:
                    ms.append(_obs(m))
        except Exception as e:  # noqa: BLE001
            exc = type(e).__name__
        return _Ref(ms, exc, store.sync_gets - before)

    refs: Dict[Tuple[str, str, int, int, str], _Ref] = {}

    def two_lurking(key: Tuple[str, str, int, int, str], got_exc: str, ref_exc: str) -> bool:
        """Both twins raise, different classes.  Not judged iff an item getter of this run is made to fail and *both*
        classes are errors that lurk in this (query, document) anyway -- the class of a configured getter failure,
        or what the sync twin raises with the getter failures switched off: which of two lurking errors surfaces
        first depends on evaluation order alone, and a getter that raises is this harness's fault injection, not a
        document of the statement.  A class that comes from nowhere (an error re-labelled on the way) is judged."""
        if strict_prefix:
            return False
        from jpsim.store import ERR_KINDS

        lurking = {ERR_KINDS[f[2] if len(f) > 2 else "store"].__name__ for f in plan["faults"]["storeerr"]}
        saved = dict(store.failing)
        store.failing.clear()
        try:
            plain = sync_ref(*key).exc
        finally:
            store.failing.update(saved)
        if plain:
            lurking.add(plain)
        if "tripwire(" in texts[key[2]]:
            lurking.add("JSONPathTypeError")
        if got_exc in lurking and ref_exc in lurking:
            ctx.count("probe.two_lurking_errors_under_store_fault")
            return True
        return False

    def rkey(job: Dict[str, Any]) -> Tuple[str, str, int, int, str]:
        level, meth = job["entry"].split(".")
        if level == "compiled" and compiled[job["q"] % len(texts)] is None:
            level = "env"
        form = job.get("form", "obj")
        if form == "obj" and isinstance(plan["docs"][job["d"] % len(docs_w)], str):
            form = "text"  # (a shrunk plan) a str is never handed over as the parsed value
        return (level, meth, job["q"] % len(texts), job["d"] % len(docs_w), form)

    jobs_flat: List[Tuple[int, int, Dict[str, Any]]] = []
    for ci, jobs in enumerate(plan["clients"]):
        for ji, job in enumerate(jobs):
            jobs_flat.append((ci, ji, job))
            key = rkey(job)
            if key not in refs:
                refs[key] = sync_ref(*key)
                if refs[key].exc:
                    ctx.count("probe.error_parity_case")
                if refs[key].exc == "JSONPathTypeError":
                    ctx.count("probe.filter_raised_type_error")
    for n, (ci, ji, job) in enumerate(jobs_flat[:2]):
        _stage_states(ctx, compiled[job["q"] % len(texts)], docs_w[job["d"] % len(docs_w)], fctx)
    total_work = sum(refs[rkey(j)].fetches + len(refs[rkey(j)].ms) + 1 for _, _, j in jobs_flat)
    n_cancels = len(plan["faults"]["cancels"]) + int(plan["faults"].get("cancel_budget", 0))
    # Progress bound once faults stop.  Generous on purpose: an implementation may give the loop a turn per node
    # it visits (fairness), so the allowance also grows with document size x query length, not only with what
    # the sync twin fetched; the bound is there to catch an evaluation that never ends, not a slow one.
    visit = sum(gen_json.count_nodes(plan["docs"][j["d"] % len(docs_w)]) * (len(texts[j["q"] % len(texts)]) + 8) for _, _, j in jobs_flat)
    max_steps = 400 + (60 * total_work + 4 * visit) * (1 + n_cancels)

    # ---------------------------------------------------------------- concurrent phase
    loop = SimLoop(ctx.choose, max_steps=max_steps)
    state = {"inflight": 0, "max_inflight": 0, "nonempty": False, "cancel_fired": 0}
    tasks: List[Any] = []
    in_job: List[bool] = [False] * len(plan["clients"])
    cancels: Dict[int, List[int]] = {}
    for step, c in plan["faults"]["cancels"]:
        cancels.setdefault(int(step), []).append(int(c) % len(plan["clients"]))
        ctx.count("fault.cancel.configured")

    budget = {"n": int(plan["faults"].get("cancel_budget", 0))}
    for _ in range(budget["n"]):
        ctx.count("fault.cancel.configured")

    def on_step(lp: SimLoop) -> None:
        if budget["n"] > 0:
            active = [c for c in range(len(tasks)) if in_job[c] and not tasks[c].done()]
            if active:
                k = ctx.choose(1 + len(active), "cancel", 0.12)
                if k:
                    budget["n"] -= 1
                    c = active[k - 1]
                    tasks[c].cancel()
                    state["cancel_fired"] += 1
                    ctx.count("fault.cancel.fired")
                    if store.in_get:
                        ctx.count("probe.cancel_landed_in_getter")
                    ctx.log.add("cancel", c, "t", lp.time())
        cs = cancels.get(lp.steps)
        if not cs:
            return
        for c in cs:
            if c < len(tasks) and not tasks[c].done() and in_job[c]:
                tasks[c].cancel()
                state["cancel_fired"] += 1
                ctx.count("fault.cancel.fired")
                if store.in_get:
                    ctx.count("probe.cancel_landed_in_getter")
                ctx.log.add("cancel", c, "t", lp.time())

    loop.on_step = on_step

    async def stall(job: Dict[str, Any]) -> None:
        if not job["stall"]:
            return
        ctx.count("fault.stall.configured")
        c = ctx.choose(4, "stall")
        if c:
            ctx.count("fault.stall.fired")
            await asyncio.sleep([0.0, 0.003, 0.03, 0.3][c])

    async def run_job(ci: int, ji: int, job: Dict[str, Any]) -> None:
        qi = job["q"] % len(texts)
        di = job["d"] % len(docs_w)
        level, meth = rkey(job)[:2]
        ref = refs[rkey(job)]
        desc = f"{job['entry']}({texts[qi]!r}) on document {di} ({'wrap ' + plan['wraps'][di]['mode'] if job.get('form', 'obj') == 'obj' else job['form'] + ' form'})"
        ctx.log.add("start", ci, ji, job["entry"], qi, di)
        ctx.switch(ci)
        state["inflight"] += 1
        state["max_inflight"] = max(state["max_inflight"], state["inflight"])
        try:
            data = data_for(rkey(job)[4], di)
            if rkey(job)[4] != "obj":
                ctx.count("probe.async_text_or_stream_document")
            if level == "module":
                target: Any = jsonpath
                args: Tuple[Any, ...] = (texts[qi], data)
            elif level == "env":
                target = env
                args = (texts[qi], data)
            else:
                target = compiled[qi]
                args = (data,)
            got_ms: List[Any] = []
            got_exc: Optional[str] = None
            if meth == "findall_async":
                try:
                    vals = await getattr(target, meth)(*args, **kw)
                    got_vals: Any = [core.tj(v) for v in vals]
                except asyncio.CancelledError:
                    raise
                except Exception as e:  # noqa: BLE001
                    got_exc = type(e).__name__
                    got_vals = None
                ctx.switch(ci)
                ctx.log.add("done", ci, ji, "findall", got_exc or len(got_vals))
                want_vals = [m[2] for m in ref.ms]
                if got_exc and ref.exc and got_exc != ref.exc and two_lurking(rkey(job), got_exc, ref.exc):
                    return
                if got_exc != ref.exc:
                    raise Violation(
                        "C08.errors",
                        f"{desc}: async {'raises ' + got_exc if got_exc else 'returns ' + core.short([_untj(v) for v in got_vals], 200)} "
                        f"but the sync twin {'raises ' + ref.exc if ref.exc else 'returns ' + ref.show(True)}",
                        f"C08.errors:{got_exc}-vs-{ref.exc}",
                    )
                if got_exc is None and got_vals != want_vals:
                    raise Violation(
                        "C08.values",
                        f"{desc}: async returns {core.short([_untj(v) for v in got_vals], 300)} but the sync twin returns {ref.show(True)}",
                        "C08.values:findall",
                    )
                if got_vals:
                    state["nonempty"] = True
                return
            # finditer_async: advance one match at a time
            try:
                it = await getattr(target, meth)(*args, **kw)
                async for m in it:
                    o = _obs(m)
                    ctx.switch(ci)
                    ctx.log.add("match", ci, ji, len(got_ms), "t", loop.time())
                    if ref.exc and len(got_ms) >= len(ref.ms):
                        # the sync twin raised at this point; how many matches a lazy iterator hands out before
                        # it raises is not part of the statement -- only that it does raise, with the same class
                        ctx.count("probe.async_lazier_than_sync_before_error")
                    elif (strict_prefix or not ref.exc) and (len(got_ms) >= len(ref.ms) or o != ref.ms[len(got_ms)]):
                        exp = ref.ms[len(got_ms)] if len(got_ms) < len(ref.ms) else None
                        raise Violation(
                            "C08.matches",
                            f"{desc}: async match #{len(got_ms)} is {core.short([o[0], list(o[1]), _untj(o[2])], 200)} but the sync twin gives "
                            f"{core.short([exp[0], list(exp[1]), _untj(exp[2])], 200) if exp else 'no further match'} (sync: {ref.show()})",
                            "C08.matches:item",
                        )
                    got_ms.append(o)
                    await stall(job)
            except (asyncio.CancelledError, Violation):
                raise
            except Exception as e:  # noqa: BLE001
                got_exc = type(e).__name__
            ctx.switch(ci)
            ctx.log.add("done", ci, ji, "finditer", got_exc or len(got_ms))
            if got_exc and ref.exc and got_exc != ref.exc and two_lurking(rkey(job), got_exc, ref.exc):
                return
            if got_exc != ref.exc:
                raise Violation(
                    "C08.errors",
                    f"{desc}: async iteration {'raises ' + got_exc if got_exc else 'finishes with ' + str(len(got_ms)) + ' matches'} "
                    f"but the sync twin {'raises ' + ref.exc if ref.exc else 'finishes: ' + ref.show()}",
                    f"C08.errors:{got_exc}-vs-{ref.exc}",
                )
            if not ref.exc and len(got_ms) != len(ref.ms):
                raise Violation(
                    "C08.matches",
                    f"{desc}: async iteration produced {len(got_ms)} matches but the sync twin produces {len(ref.ms)} ({ref.show()})",
                    "C08.matches:length",
                )
            if got_ms:
                state["nonempty"] = True
        finally:
            state["inflight"] -= 1

    async def client(ci: int) -> None:
        for ji, job in enumerate(plan["clients"][ci]):
            attempts = 0
            while True:
                attempts += 1
                in_job[ci] = True
                try:
                    await run_job(ci, ji, job)
                    break
                except asyncio.CancelledError:
                    if loop.drain or attempts > 8:
                        raise
                    ctx.log.add("reissue", ci, ji)
                    ctx.count("reissued")
                finally:
                    in_job[ci] = False
            if job["stall"]:
                await stall(job)

    async def main() -> None:
        for ci in range(len(plan["clients"])):
            tasks.append(loop.create_task(client(ci), name=f"client-{ci}"))
        await asyncio.gather(*tasks)

    gc_was = gc.isenabled()
    gc.disable()
    store.concurrent = True
    try:
        try:
            run_sim(loop, main())
        except SimDeadlock:
            raise Violation(
                "C08.completes",
                f"the event loop has nothing left to run but evaluations are still pending after {loop.steps} steps "
                f"(all sync twins terminated)",
                "C08.completes:deadlock",
            ) from None
        except SimBudget:
            raise Violation(
                "C08.completes",
                f"evaluations still running after {loop.steps} loop steps (budget {max_steps}; sync twins needed {total_work} fetches+matches)",
                "C08.completes:budget",
            ) from None
    finally:
        store.concurrent = False
        ctx.sim_time = loop.time()
        ctx.steps = loop.steps
        if gc_was:
            gc.enable()
    ctx.count("fault.delay.configured", store.offered)
    ctx.count("fault.yield.configured", store.offered)
    ctx.count("fault.delay.fired", store.delayed)
    ctx.count("fault.yield.fired", store.suspended - store.delayed)
    ctx.count("fault.storeerr.fired", store.errors_fired)
    ctx.count("async_gets", store.async_gets)
    if state["max_inflight"] >= 3:
        ctx.count("probe.in_flight_ge_3")
    if any("&" in t for t in texts) and any(w["mode"] != "none" for w in plan["wraps"]):
        ctx.count("probe.compound_intersect_async_store")
    # the oracle itself must have been stable
    for key, r in refs.items():
        again = sync_ref(*key)
        if again.ms != r.ms or again.exc != r.exc:
            raise Violation(
                "C08.values",
                f"the synchronous result for {texts[key[2]]!r} on document {key[3]} ({key[4]}) changed after the async evaluations ran "
                f"(was {r.show()}, now {again.show()})",
                "C08.values:oracle-unstable",
            )
    ctx.nontrivial = state["max_inflight"] >= 2 and store.suspended >= 1 and state["nonempty"]


def shrink_plan(plan: Dict[str, Any]) -> Iterator[Dict[str, Any]]:
    for key in ("cancels", "storeerr"):
        for fl in ddmin_list(plan["faults"][key]):
            p = dict(plan)
            p["faults"] = dict(plan["faults"])
            p["faults"][key] = fl
            yield p
    if plan["faults"].get("badtext"):
        p = dict(plan)
        p["faults"] = {k: v for k, v in plan["faults"].items() if k != "badtext"}
        yield p
    if plan["faults"].get("cancel_budget"):
        p = dict(plan)
        p["faults"] = dict(plan["faults"])
        p["faults"]["cancel_budget"] = 0
        yield p
    for cl in ddmin_list(plan["clients"]):
        if cl:
            p = dict(plan)
            p["clients"] = cl
            yield p
    for ci, jobs in enumerate(plan["clients"]):
        for js in ddmin_list(jobs):
            if js:
                p = dict(plan)
                p["clients"] = list(plan["clients"])
                p["clients"][ci] = js
                yield p
    for ci, jobs in enumerate(plan["clients"]):
        for ji, job in enumerate(jobs):
            for key, simple in (("stall", False), ("entry", "compiled.findall_async"), ("form", "obj")):
                if job.get(key, simple) != simple:
                    p = dict(plan)
                    p["clients"] = [[dict(j) for j in c] for c in plan["clients"]]
                    p["clients"][ci][ji][key] = simple
                    yield p
    if len(plan["queries"]) > 1:
        for i in range(len(plan["queries"])):
            p = dict(plan)
            p["queries"] = plan["queries"][:i] + plan["queries"][i + 1 :]
            yield p
    for wi, w in enumerate(plan["wraps"]):
        if w["mode"] != "all":
            p = dict(plan)
            p["wraps"] = [dict(x) for x in plan["wraps"]]
            p["wraps"][wi]["mode"] = "all"
            yield p
    if len(plan["docs"]) > 1:
        for i in range(len(plan["docs"])):
            p = dict(plan)
            p["docs"] = plan["docs"][:i] + plan["docs"][i + 1 :]
            p["wraps"] = plan["wraps"][:i] + plan["wraps"][i + 1 :]
            yield p
    for di, d in enumerate(plan["docs"]):
        for s in simpler_json(d):
            if isinstance(s, (dict, list)):
                p = dict(plan)
                p["docs"] = list(plan["docs"])
                p["docs"][di] = s
                yield p
    if plan["ctx"] is not None:
        p = dict(plan)
        p["ctx"] = None
        yield p
    for qi, q in enumerate(plan["queries"]):
        if " | " in q or " & " in q:
            for part in q.replace(" & ", " | ").split(" | "):
                p = dict(plan)
                p["queries"] = list(plan["queries"])
                p["queries"][qi] = part
                yield p


def repro(spec: Dict[str, Any], violation: Dict[str, str]) -> str:
    plan = spec["plan"]
    return (
        "import asyncio, jsonpath\n"
        f"doc = {plan['docs'][0]!r}\nq = {plan['queries'][0]!r}\n"
        "print(jsonpath.findall(q, doc)); print(asyncio.run(jsonpath.findall_async(q, doc)))\n"
    )
