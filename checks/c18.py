"""C18 - the command-line tool is a faithful front end to the library.

System under simulation: the real ``jsonpath.cli`` (argparse, handlers) and the
library behind it, run in-process behind a process stub (argv, std streams, exit
status) and an in-memory file system whose stored bytes are corrupted before the
invocation.  Oracle: the corresponding library call on the very same bytes.  A
sample of invocations is also executed as a real ``python -m jsonpath`` process
and must agree with the stub.
"""
from __future__ import annotations

import copy
import io
import json
import os
from typing import Any
from typing import Dict
from typing import Iterator
from typing import List
from typing import Optional
from typing import Tuple

import jsonpath
from jsonpath import JSONPatch
from jsonpath import JSONPointer
from jsonpath.exceptions import JSONPatchError
from jsonpath.exceptions import JSONPathError
from jsonpath.exceptions import JSONPointerError
from jpsim import core
from jpsim import gen_json
from jpsim import gen_patch
from jpsim import gen_query
from jpsim.core import Ctx
from jpsim.core import Violation
from jpsim.fs import SimFS
from jpsim.proc import run_cli
from jpsim.proc import run_cli_subprocess
from jpsim.runner import ddmin_list
from jpsim.runner import simpler_json

PROPERTY = "C18"
BUDGET = {
    "quick": {"clean": 16000, "faulty": 24000, "subprocess": 480},
    "thorough": {"clean": 250000, "faulty": 400000, "subprocess": 12000},
}
FAULT_KINDS = ["trunc", "flip", "empty", "garbage", "badutf8", "bom16", "bom8", "ws"]
TIME_UNIT = "one simulated process invocation per run; the component has no clock and no concurrency"
RULE = (
    "one run = one simulated CLI invocation: sub-command x option subset x expression inline or from a file (with "
    "trailing blanks) x document from a file or stdin x output to stdout or a file, expressions valid or mutated, then "
    "stored-byte faults on the document / patch file / stdin ('clean' runs inject none; 'subprocess' runs also execute a "
    "real python -m jsonpath process). Non-trivial: the invocation reached a handler (not an argparse usage error) and "
    "produced non-empty output or exercised a rejection path; distinct by (sub-command, options, expression source, "
    "document source, sink, outcome class, fault kinds)."
)
STATES_MEASURE = "distinct (sub-command, option set, expression source, document source, sink, outcome class, fault kinds) tuples"
REAL = ["jsonpath.cli (setup_parser, handlers, main)", "argparse", "jsonpath library behind the handlers", "json"]
STUB = [
    "process stub: jsonpath/__main__.py run through runpy with its own argv, named std streams, a scratch working directory holding the run's files, freshly imported CLI modules",
    "real python -m jsonpath subprocess only in the 'subprocess' configuration",
]
ASSUMPTIONS = [
    "'the corresponding library call' is findall / pointer.resolve / patch.apply on a stream over the same bytes with the same flags",
    "'the JSON serialisation' is any json.dumps rendering of the returned value: on one line without --pretty, indented with it; either ensure_ascii setting, either member order, optionally followed by one newline",
    "a JSON input file reaches the library as bytes; standard input as text or as the bytes underneath; an expression file's surrounding white space / final line break may or may not belong to the expression",
    "inputs on which the library itself raises outside its documented error families are counted as skipped_library_nonfamily, not judged",
    "I/O errors (EIO, ENOSPC, missing files) are not injected: the statement gives them no meaning",
    "expressions contain no newline characters (the one-line clause would otherwise depend on echoing user text)",
]
PROBES = [
    "family.JSONPathSyntaxError", "family.JSONPathTypeError", "family.JSONPathNameError", "family.JSONPathIndexError",
    "family.JSONPointerError", "family.JSONPatchError", "family.JSONDecodeError", "family.UnicodeDecodeError",
    "empty_expression", "large_document", "corruption_still_decodable", "r_used.path", "r_used.pointer", "stdin_document", "o_sink", "ok_nonempty",
    "expression_file_readings_differ",
]

_ENV = jsonpath.JSONPathEnvironment()


def _hex(b: bytes) -> str:
    return b.hex()


def apply_faults(data: bytes, faults: List[List[Any]], target: str, fired: List[str]) -> bytes:
    for f in faults:
        if f[0] != target:
            continue
        kind, a, b = f[1], int(f[2]), int(f[3])
        before = data
        if kind == "trunc":
            data = data[: a % (len(data) + 1)]
        elif kind == "flip" and data:
            i = a % len(data)
            data = data[:i] + bytes([data[i] ^ (1 << (b % 8))]) + data[i + 1 :]
        elif kind == "empty":
            data = b""
        elif kind == "garbage":
            data = data + [b"}", b"]", b"x", b",", b"\x00", b" 1"][a % 6]
        elif kind == "badutf8":
            i = a % (len(data) + 1)
            data = data[:i] + [b"\xff", b"\xc3", b"\xe2\x82", b"\x80"][b % 4] + data[i:]
        elif kind == "bom16":
            try:
                data = data.decode("utf-8").encode("utf-16")
            except UnicodeDecodeError:
                pass
        elif kind == "bom8":
            data = b"\xef\xbb\xbf" + data
        elif kind == "ws":
            data = [b" ", b"\n", b"\t"][a % 3] + data + [b"\n", b" ", b"\r\n"][b % 3]
        if data != before:
            fired.append(kind)
    return data


def _mutate_expr(rng: Any, cmd: str, expr: str) -> str:
    r = rng.random()
    if cmd == "path":
        opts = [
            expr + "[",
            expr + "]",
            expr[: max(1, len(expr) // 2)],
            "$[?nosuchfn(@)]",
            "$[?foo(@.a, 1) == 2]",
            "$[9007199254740992]",
            "$[-9007199254740992:]",
            "$[01]",
            "$[?count(@.a) ]",
            "$[?length(@.*) > 1]",
            "$[?@.a == $..b]",
            "$[?match(@.a)]",
            "$.a | ",
            "$.a &",
            "$[?@.a ==]",
            "$['\\ud800']" if False else "$[?(@.a]",
            "$$",
            "$[?true]",
            "$.a.b[*]..",
        ]
        return rng.choice(opts)
    if cmd == "pointer":
        opts = [expr + "/nosuch", "nosuch", expr + "/99", "/-", expr + "/-", "a/b", " /a", expr + "/~2", "/9007199254740993", expr + "/01"]
        return rng.choice(opts)
    return expr


def generate(seed: int, config: str, tier: str) -> Dict[str, Any]:
    rng = core.stream(seed, "gen")
    frng = core.stream(seed, "fault")
    cmd = rng.choice(["path", "path", "pointer", "patch"])
    gopts = [o for o in ["--pretty", "--debug", "--no-unicode-escape"] if rng.random() < (0.15 if o == "--debug" else 0.35)]
    sopts: List[str] = []
    if cmd == "path" and rng.random() < 0.3:
        sopts.append("--no-type-checks")
    if cmd in ("pointer", "patch") and rng.random() < 0.35:
        sopts.append(rng.choice(["-u", "--uri-decode"]))
    invalid_expr = rng.random() < 0.25
    patch: Any = None
    if cmd == "path":
        prof = gen_json.profile(rng)
        doc = gen_json.gen_document(rng, prof)
        opts = gen_query.default_opts(rng)
        expr = gen_query.gen_queries(rng, _ENV, doc, 1, opts=opts)[0]
        expr = expr.replace("\n", " ").replace("\r", " ")
    elif cmd == "pointer":
        prof = gen_patch.patch_profile(rng)
        if rng.random() < 0.5:
            prof["keys"] = prof["keys"] + ["0", "1", "~x", "#a", "ä"]
        if rng.random() < 0.4:
            # names that contain a percent sign or look percent-encoded: with -u they must be written %25..
            prof["keys"] = prof["keys"] + ["%41", "50%", "a%20b", "%2541"]
        doc = gen_patch.gen_pdoc(rng, prof)
        loc = rng.choice(gen_json.walk(doc))[0]
        expr = gen_patch.enc(loc)
        if "-u" in sopts or "--uri-decode" in sopts:
            expr = expr.replace("%", "%25").replace(" ", "%20").replace('"', "%22")
        if rng.random() < 0.1 and loc:
            expr = gen_patch.enc(loc[:-1]) + "/" + rng.choice(["~", "#"]) + str(loc[-1])
    else:
        prof = gen_patch.patch_profile(rng)
        if rng.random() < 0.4:
            # member names on which escape decoding / URI decoding of the op paths makes a difference
            prof["keys"] = prof["keys"] + ["ä", "é", "\\u0061", "%41", "a%20b"]
        doc = gen_patch.gen_pdoc(rng, prof)
        kinds = [k for k in ["add", "remove", "replace", "move", "copy", "test", "addne", "addap"] if rng.random() < 0.8] or ["add"]
        patch = gen_patch.gen_oplist(rng, prof, JSONPatch, doc, rng.randint(0, 6), kinds)
        expr = ""
        if invalid_expr:
            r = rng.random()
            if r < 0.35 and patch:
                patch, _ = gen_patch.make_failing(rng, patch)
            elif r < 0.5:
                patch = rng.choice([{}, {"op": "add"}, 1, "x", None, [1], [[]], True, 0, ""])
            elif r < 0.65:
                patch = patch + [rng.choice([{"path": "/a"}, {"op": "nosuch", "path": "/a"}, {"op": "add", "path": 1, "value": 1},
                                             {"op": "add", "path": "/a"}, {"op": "move", "path": "/a"}, {"op": "add", "path": "a", "value": 1}])]
            else:
                patch = patch + [{"op": "test", "path": "/__nope__/x", "value": 1}]
    if rng.random() < 0.12 and isinstance(doc, (dict, list)):
        # text that a JSON document may legally carry but an output stream may not encode
        odd = rng.choice(["\ud83d", "é\ud83dx", "naïve ☃", "\udc00", "\U0001f600"])
        if isinstance(doc, dict):
            doc[rng.choice(["a", "s", "b"])] = odd
        else:
            doc.insert(rng.randrange(len(doc) + 1), odd)
    if rng.random() < 0.06 and isinstance(doc, (dict, list)):
        # NaN / Infinity: not JSON proper, but what json.loads accepts and json.dumps writes
        nf = rng.choice(["__NaN__", "__Infinity__", "__-Infinity__"])
        if isinstance(doc, dict):
            doc[rng.choice(["a", "n", "b"])] = nf
        else:
            doc.insert(rng.randrange(len(doc) + 1), nf)
    if invalid_expr and cmd != "patch":
        expr = _mutate_expr(rng, cmd, expr)
    elif cmd != "patch" and rng.random() < 0.05:
        expr = ""  # the empty query / pointer is valid: it selects the whole document
    if expr.startswith("-"):
        expr = "/" + expr
    faults: List[List[Any]] = []
    if config != "clean":
        doc_src_guess = None
        n = frng.choice([1, 1, 1, 2])
        kinds = [k for k in FAULT_KINDS if frng.random() < 0.6] or ["trunc"]
        for _ in range(n):
            tgt = "doc" if (cmd != "patch" or frng.random() < 0.6) else "patch"
            faults.append([tgt, frng.choice(kinds), frng.randrange(1 << 16), frng.randrange(8)])
    plan = {
        "cmd": cmd,
        "gopts": gopts,
        "sopts": sopts,
        "expr": expr,
        "expr_src": rng.choice(["inline", "inline", "file"]) if cmd != "patch" else "n/a",
        "expr_suffix": rng.choice(["", "\n", "  \n", "\n\n", " "]),
        # an expression file may hold the query on several lines (white space is insignificant in queries)
        "expr_multiline": rng.choice([0, 0, 0, 1, 2]) if cmd == "path" else (rng.choice([0, 0, 0, 1]) if cmd == "pointer" else 0),
        "doc": doc,
        "doc_style": rng.choice(["compact", "indent", "noascii"]),
        "doc_src": rng.choice(["file", "file", "stdin"]),
        "out": rng.choice(["stdout", "stdout", "file"]),
        "patch": patch,
        "faults": faults,
        "subprocess": config == "subprocess",
        "pad": rng.choice([4097, 8193, 65537, 131073]) if rng.random() < 0.05 else 0,
    }
    return {"property": PROPERTY, "config": config, "seed": seed, "knobs": {}, "plan": plan}


NONFINITE = {'"__NaN__"': "NaN", '"__Infinity__"': "Infinity", '"__-Infinity__"': "-Infinity"}


def _dump(v: Any, style: str) -> bytes:
    if style == "indent":
        b = json.dumps(v, indent=1).encode()
    elif style == "noascii":
        b = json.dumps(v, ensure_ascii=False).encode("utf-8", "surrogatepass")
    else:
        b = json.dumps(v, separators=(",", ":")).encode()
    # the plan is strict JSON; the non-finite number literals Python's json accepts are kept as marker strings
    for marker, lit in NONFINITE.items():
        b = b.replace(marker.encode(), lit.encode())
    return b


FAMILY = (JSONPathError, JSONPointerError, JSONPatchError)
DECODE = (json.JSONDecodeError, UnicodeDecodeError)


def _file_text(plan: Dict[str, Any]) -> str:
    """What the -r expression file holds."""
    expr = plan["expr"]
    ml = plan.get("expr_multiline", 0)
    if ml == 1:
        expr = "\n" + expr  # a blank first line
    elif ml == 2 and expr[:1] in ("$", "^") and expr[1:2] in (".", "["):
        expr = expr[0] + "\n" + expr[1:]  # the query continues on the next line
    return expr + plan["expr_suffix"]


def _stream(doc_src: str, data: bytes) -> Any:
    """The document as the library call would receive it: bytes stream for -f, text stream for stdin."""
    if doc_src == "file":
        return io.BytesIO(data)
    return io.StringIO(data.decode("utf-8"))  # may raise UnicodeDecodeError: undecodable document


def _expr_readings(plan: Dict[str, Any]) -> List[str]:
    """The expression(s) the tool may take from the command line / the -r file.

    "Read from a file" does not say how much surrounding white space belongs to the expression: the
    tool strips all of it; dropping only the final line break (or all leading/trailing line breaks)
    is as faithful.  Where those readings differ the CLI may agree with any one of them."""
    if plan["cmd"] == "patch" or plan["expr_src"] != "file":
        return [plan["expr"]]
    text = _file_text(plan)
    out: List[str] = []
    for cand in (text.strip(), text.rstrip("\r\n"), text.strip("\r\n")):
        if cand not in out:
            out.append(cand)
    return out


def oracle(plan: Dict[str, Any], doc_bytes: bytes, patch_bytes: bytes, expr: Optional[str] = None,
           doc_src: Optional[str] = None) -> Tuple[str, Any]:
    """('ok', result) | ('reject', family name) | ('skip', why).

    *doc_src* says as which kind of stream the document reaches the library call: "file" = bytes, anything
    else = text decoded as UTF-8 (default: bytes for -f, text for standard input, as the tool does today)."""
    cmd = plan["cmd"]
    plan = dict(plan, doc_src=doc_src or plan["doc_src"])
    ue = "--no-unicode-escape" not in plan["gopts"]
    ud = "-u" in plan["sopts"] or "--uri-decode" in plan["sopts"]
    if expr is None:
        expr = _expr_readings(plan)[0]
    try:
        if cmd == "path":
            env = jsonpath.JSONPathEnvironment(unicode_escape=ue, well_typed="--no-type-checks" not in plan["sopts"])
            try:
                compiled = env.compile(expr)
            except JSONPathError as e:
                return ("reject", type(e).__name__)
            try:
                stream = _stream(plan["doc_src"], doc_bytes)
                return ("ok", compiled.findall(stream))
            except DECODE as e:
                return ("reject", type(e).__name__)
            except JSONPathError as e:
                return ("reject", type(e).__name__)
        if cmd == "pointer":
            try:
                JSONPointer(expr, unicode_escape=ue, uri_decode=ud)
            except JSONPointerError as e:
                return ("reject", "JSONPointerError")
            try:
                stream = _stream(plan["doc_src"], doc_bytes)
                return ("ok", jsonpath.pointer.resolve(expr, stream, unicode_escape=ue, uri_decode=ud))
            except DECODE as e:
                return ("reject", type(e).__name__)
            except JSONPointerError:
                return ("reject", "JSONPointerError")
        # patch
        try:
            patch_obj = json.loads(patch_bytes)
        except DECODE as e:
            return ("reject", type(e).__name__)
        try:
            JSONPatch(copy.deepcopy(patch_obj), unicode_escape=ue, uri_decode=ud)
            built = True
        except JSONPatchError:
            built = False
            if isinstance(patch_obj, list):
                return ("reject", "JSONPatchError")
        if not isinstance(patch_obj, list):
            # not a JSON Patch document at all: the CLI refuses it up front, the library may
            # accept falsy values as an empty patch; the statement covers neither.
            return ("skip", "patch_not_array")
        try:
            stream = _stream(plan["doc_src"], doc_bytes)
            return ("ok", jsonpath.patch.apply(patch_obj, stream, unicode_escape=ue, uri_decode=ud))
        except DECODE as e:
            return ("reject", type(e).__name__)
        except JSONPatchError:
            return ("reject", "JSONPatchError")
    except RecursionError:
        return ("skip", "RecursionError")
    except Exception as e:  # noqa: BLE001
        # the library itself raised outside its documented families: C06's question, not C18's
        return ("skip", f"nonfamily:{type(e).__name__}")
    return ("skip", "unreachable")


def _argv(plan: Dict[str, Any]) -> List[str]:
    cmd = plan["cmd"]
    argv = list(plan["gopts"]) + [cmd]
    if cmd == "patch":
        argv.append("patch.json")
    elif plan["expr_src"] == "file":
        argv += ["-r", "expr.txt"]
    else:
        argv += ["-q" if cmd == "path" else "-p", plan["expr"]]
    if plan["doc_src"] == "file":
        argv += ["-f", "doc.json"]
    if plan["out"] == "file":
        argv += ["-o", "out.json"]
    argv += plan["sopts"]
    return argv


def _serialisations(result: Any, pretty: bool) -> List[bytes]:
    """Every rendering that counts as "the JSON serialisation" of *result*.

    json.dumps of the value, document order kept: without --pretty on one line (default or compact
    separators), with --pretty indented (2 is what the tool does; other indents are as pretty);
    either ensure_ascii setting; an optional single trailing newline."""
    out = []
    layouts: List[Dict[str, Any]] = (
        [{"indent": i} for i in (2, 4, 1, 3, "\t")] if pretty else [{}, {"separators": (",", ":")}]
    )
    layouts = layouts + [dict(kw, sort_keys=True) for kw in layouts]  # member order is not part of a JSON value
    for kw in layouts:
        for ea in (True, False):
            try:
                s = json.dumps(result, ensure_ascii=ea, **kw)
            except Exception:  # noqa: BLE001
                continue
            b = s.encode("utf-8", "surrogatepass")
            out.append(b)
            out.append(b + b"\n")
    return out


def _judge(ctx: Optional[Ctx], plan: Dict[str, Any], res: Any, produced: bytes, verdict: str, detail: Any,
           fired: List[str], shown: str) -> Optional[Violation]:
    """None if the CLI outcome is what the statement asks for given this oracle verdict."""
    cmd = plan["cmd"]
    debug = "--debug" in plan["gopts"]
    pretty = "--pretty" in plan["gopts"]

    def count(k: str) -> None:
        if ctx is not None:
            ctx.count(k)

    if verdict == "skip":
        count(f"skipped.{detail}")
        if str(detail).startswith("nonfamily"):
            count("skipped_library_nonfamily")
        return None
    if verdict == "ok":
        if fired:
            count("probe.corruption_still_decodable")
        if res.status != 0 or res.escaped:
            return Violation(
                "C18.ok",
                f"the library call succeeds ({core.short(detail, 120)}) but the CLI exited with status {res.status}"
                f"{' after uncaught ' + res.escaped if res.escaped else ''}; stderr={core.short(res.stderr, 300)!r}; {shown}",
                f"C18.ok:{cmd}:status{res.status}:{res.escaped or 'exit'}",
            )
        if produced not in _serialisations(detail, pretty):
            return Violation(
                "C18.ok",
                f"CLI wrote {core.short(produced.decode('utf-8', 'replace'), 300)!r} but the library call returns "
                f"{core.short(detail, 300)} (pretty={pretty}); {shown}",
                f"C18.ok:{cmd}:output-differs",
            )
        if detail not in ([], None, "", {}):
            count("probe.ok_nonempty")
            if ctx is not None:
                ctx.nontrivial = True
        return None
    count(f"probe.family.{detail}")
    if ctx is not None:
        ctx.nontrivial = True
    if res.status != 1:
        return Violation(
            "C18.debug" if debug else "C18.reject",
            f"the library rejects this input ({detail}) but the CLI exited with status {res.status}; "
            f"stdout={core.short(produced.decode('utf-8', 'replace'), 200)!r}; {shown}",
            f"C18.reject:{cmd}:{detail}:status{res.status}",
        )
    if not debug:
        if res.escaped is not None or "Traceback (most recent call last)" in res.stderr or b"Traceback (most recent call last)" in res.stdout:
            last = res.stderr.strip().splitlines()[-1] if res.stderr.strip() else ""
            return Violation(
                "C18.reject",
                f"the library rejects this input ({detail}); the CLI printed a traceback / let {res.escaped} escape "
                f"without --debug: {core.short(last, 200)!r}; {shown}",
                f"C18.reject:{cmd}:{detail}:traceback:{res.escaped}",
            )
        msg = res.stderr[:-1] if res.stderr.endswith("\n") else res.stderr
        if not msg.strip() or "\n" in msg or "\r" in msg:
            return Violation(
                "C18.reject",
                f"the library rejects this input ({detail}); stderr is not a one-line message: {core.short(res.stderr, 300)!r}; {shown}",
                f"C18.reject:{cmd}:{detail}:not-one-line",
            )
    return None


def execute(spec: Dict[str, Any], ctx: Ctx) -> None:
    plan = spec["plan"]
    cmd = plan["cmd"]
    fired: List[str] = []
    raw = _dump(plan["doc"], plan["doc_style"])
    if plan.get("pad"):
        # buggify-style size knob: a document larger than any plausible read chunk (JSON whitespace)
        raw = raw[:1] + b" " * int(plan["pad"]) + raw[1:]
        ctx.count("probe.large_document")
    doc_bytes = apply_faults(raw, plan["faults"], "doc", fired)
    patch_bytes = b""
    if cmd == "patch":
        patch_bytes = apply_faults(_dump(plan["patch"], "compact"), plan["faults"], "patch", fired)
    for f in plan["faults"]:
        ctx.count(f"fault.{f[1]}.configured")
    for k in fired:
        ctx.count(f"fault.{k}.fired")
    files: Dict[str, bytes] = {}
    if plan["doc_src"] == "file":
        files["doc.json"] = doc_bytes
        stdin = b""
    else:
        stdin = doc_bytes
        ctx.count("probe.stdin_document")
    if cmd == "patch":
        files["patch.json"] = patch_bytes
    elif plan["expr_src"] == "file":
        files["expr.txt"] = _file_text(plan).encode("utf-8")
        ctx.count(f"probe.r_used.{cmd}")
    if plan["out"] == "file":
        ctx.count("probe.o_sink")
    if cmd != "patch" and (_file_text(plan) if plan["expr_src"] == "file" else plan["expr"] + "x").strip() == "":
        ctx.count("probe.empty_expression")
    argv = _argv(plan)
    debug = "--debug" in plan["gopts"]
    pretty = "--pretty" in plan["gopts"]

    fs = SimFS()
    for name, data in files.items():
        fs.put(name, data)
    res = run_cli(argv, stdin, fs)
    produced = fs.files.get("out.json", b"") if plan["out"] == "file" else res.stdout
    ctx.steps += 1
    ctx.log.add("invoke", " ".join(argv), "status", res.status, "out", len(produced), "err", "traceback" if "Traceback (most recent call last)" in res.stderr else len(res.stderr), "escaped", res.escaped or "-")

    fk = ",".join(sorted(set(fired))) or "-"
    opt_sig = ",".join(sorted(plan["gopts"] + plan["sopts"])) or "-"
    if res.status == 2 and "usage:" in res.stderr:
        # every generated command line uses documented options only: a usage error is judged like any
        # other outcome (exit status 2 is neither 0 nor 1)
        ctx.count("usage_errors")
    shown = f"argv={argv} doc={core.short(doc_bytes.decode('latin-1'), 200)!r}" + (
        f" patch={core.short(patch_bytes.decode('latin-1'), 200)!r}" if cmd == "patch" else ""
    )
    readings = _expr_readings(plan)
    if len(readings) > 1:
        ctx.count("probe.expression_file_readings_differ")
    first: Optional[Violation] = None
    # "the corresponding library call" receives the document as a stream.  A JSON input *file* is bytes (any
    # encoding JSON allows); for standard input the tool may hand over text (as today) or the bytes underneath
    kinds = ["file"] if plan["doc_src"] == "file" else ["stdin", "file"]
    for ri, (reading, kind) in enumerate((r, k) for r in readings for k in kinds):
        verdict, detail = oracle(plan, doc_bytes, patch_bytes, reading, kind)
        if ri == 0:
            ctx.log.add("oracle", verdict, detail if verdict != "ok" else core.short(detail, 80))
            outcome_class = verdict if verdict != "reject" else f"reject:{detail}"
            ctx.state(cmd, opt_sig, plan["expr_src"], plan["doc_src"], plan["out"], outcome_class, fk)
        v = _judge(ctx if ri == 0 else None, plan, res, produced, verdict, detail, fired, shown)
        if v is None:
            if ri:
                ctx.count("probe.accepted_other_reading_or_stream_kind")
            first = None
            break
        if first is None:
            first = v
    if first is not None:
        raise first

    if plan["subprocess"]:
        repo = os.path.dirname(os.path.dirname(os.path.abspath(jsonpath.__file__)))
        real = run_cli_subprocess(argv, stdin, files, repo, ["out.json"] if plan["out"] == "file" else [])
        ctx.count("subprocess_runs")
        real_out = real["files"].get("out.json") if plan["out"] == "file" else real["stdout"]
        real_out = real_out or b""
        ctx.log.add("subprocess", "status", real["status"], "out", len(real_out))
        stub_first = res.stderr.splitlines()[0] if res.stderr.splitlines() else ""
        real_first = real["stderr"].splitlines()[0] if real["stderr"].splitlines() else ""
        same_err = True if (debug or res.escaped) else stub_first == real_first
        if real["status"] != res.status or real_out != produced or not same_err:
            raise Violation(
                "C18.parity",
                f"real process: status {real['status']}, out {core.short(real_out.decode('utf-8', 'replace'), 200)!r}, stderr "
                f"{core.short(real_first, 200)!r}; in-process stub: status {res.status}, out "
                f"{core.short(produced.decode('utf-8', 'replace'), 200)!r}, stderr {core.short(stub_first, 200)!r}; {shown}",
                f"C18.parity:{cmd}",
            )


def shrink_plan(plan: Dict[str, Any]) -> Iterator[Dict[str, Any]]:
    for fl in ddmin_list(plan["faults"]):
        p = dict(plan)
        p["faults"] = fl
        yield p
    for key, simple in (("gopts", []), ("sopts", []), ("expr_src", "inline"), ("doc_src", "file"), ("out", "stdout"),
                        ("doc_style", "compact"), ("expr_suffix", ""), ("subprocess", False), ("pad", 0), ("expr_multiline", 0)):
        if plan.get(key, simple) != simple and not (key == "expr_src" and plan["cmd"] == "patch"):
            p = dict(plan)
            p[key] = simple
            yield p
    for key in ("gopts", "sopts"):
        for sub in ddmin_list(plan[key]):
            p = dict(plan)
            p[key] = sub
            yield p
    if isinstance(plan["patch"], list):
        for sub in ddmin_list(plan["patch"]):
            p = dict(plan)
            p["patch"] = sub
            yield p
    for d in simpler_json(plan["doc"]):
        p = dict(plan)
        p["doc"] = d
        yield p
    if len(plan["expr"]) > 1 and plan["cmd"] != "patch":
        for cut in (len(plan["expr"]) // 2, 1):
            p = dict(plan)
            p["expr"] = plan["expr"][:-cut]
            yield p


def repro(spec: Dict[str, Any], violation: Dict[str, str]) -> str:
    plan = spec["plan"]
    return f"python -m jsonpath {' '.join(_argv(plan))}   # files: doc.json / patch.json / expr.txt per plan, faults applied: {plan['faults']}"
