"""C12 - query iterator operations behave as list slicing on the match sequence.

System under simulation: the real ``jsonpath.fluent_api.Query`` over a real lazy
``finditer`` pipeline.  The simulator owns the *history*: which live handle
(original, ``take`` child, ``tee`` sibling) is operated on or advanced next, and
where refused (negative-count) operations are injected.  Oracle: a list model.
"""
from __future__ import annotations

import random
from typing import Any
from typing import Dict
from typing import Iterator
from typing import List

import jsonpath
from jpsim import core
from jpsim import gen_json
from jpsim import gen_query
from jpsim.core import Ctx
from jpsim.core import Violation
from jpsim.runner import ddmin_list
from jpsim.runner import simpler_json

PROPERTY = "C12"
BUDGET = {
    "quick": {"history": 300000},
    "thorough": {"history": 5000000},
}
FAULT_KINDS = ["negcount"]
TIME_UNIT = "logical steps (one chained operation or one next() on a live handle); the component has no clock"
RULE = (
    "one run = a generated document + query giving a real lazy match sequence (length 0-8, in 3 % of runs several hundred) and a history of up to 25 "
    "Query operations; the seeded scheduler picks which live handle each operation applies to. Non-trivial: at least "
    "3 operations executed, source length >= 2 and at least two live handles were operated on alternately; distinct by "
    "event-log digest."
)
STATES_MEASURE = (
    "distinct model states (sorted remaining lengths of live handles, last op) plus distinct ordered op pairs on one "
    "handle x count class (<0, 0, <len, =len, >len), prefixed 'pair|'"
)
REAL = ["jsonpath.fluent_api.Query", "jsonpath finditer pipeline (selectors, filters)", "itertools.tee/islice, collections.deque as used by Query"]
STUB = ["handle scheduler (IterSched)", "list model of remaining matches"]
ASSUMPTIONS = [
    "oracle is relative to the engine's own match list for the same (query, document)",
    "views (values/locations/items/pointers) are terminal: once a view of a handle is opened no further chained operation is applied to that handle, but the view itself may be consumed lazily, interleaved with operations on other handles; the original handle is not used after tee(), as documented",
    "a handle is not observed again after last_one() (the statement does not say what remains)",
]
PROBES = ["lazy_view_interleaved", "neg_refused", "tee_alternation", "take_then_parent", "empty_source", "drain_after_chain3", "tee_default_argument"]

LIMIT_OPS = ["limit", "head", "first"]
SKIP_OPS = ["skip", "drop"]
TAIL_OPS = ["tail", "last"]
VIEWS = ["values", "locations", "items", "pointers", "iter"]
ALL_OPS = LIMIT_OPS + SKIP_OPS + TAIL_OPS + ["take", "tee", "first_one", "one", "last_one", "next"] + VIEWS

_SCRATCH_ENV = jsonpath.JSONPathEnvironment()


def _source_len(q: str, doc: Any) -> int:
    try:
        return len(list(_SCRATCH_ENV.finditer(q, doc)))
    except Exception:  # noqa: BLE001
        return -1


def generate(seed: int, config: str, tier: str) -> Dict[str, Any]:
    rng = core.stream(seed, "gen")
    prof = gen_json.profile(rng)
    deep = tier == "thorough"  # longer sequences and histories in the thorough tier
    want = rng.choice([0, 1, 2, 3, 4, 5, 6, 7, 8] + ([9, 10, 12] if deep else []))
    doc: Any = None
    query = "$[*]"
    if rng.random() < 0.03:
        # now and then a long match sequence (hundreds of matches), with counts around it
        want = rng.choice([257, 300, 513])
        doc = [rng.choice([0, 1, "a", None, [], {}]) if i % 7 else i for i in range(want)]
        query = "$[*]"
    elif rng.random() < 0.5:
        doc = [gen_json.gen_value(rng, prof, 1) for _ in range(want)]
        query = rng.choice(["$[*]", "$.*", "$[0:]", "$[::1]", "$[*]"])
    else:
        best = None
        for _ in range(6):
            d = gen_json.gen_document(rng, prof)
            qs = gen_query.gen_queries(rng, _SCRATCH_ENV, d, 1, p_compound=0.25)
            q = qs[0] if rng.random() < 0.7 else rng.choice(["$..*", "$[*]", "$..[*]", "$.*"])
            n = _source_len(q, d)
            if n < 0 or n > (12 if deep else 8):
                continue
            if best is None or abs(n - want) < abs(best[0] - want):
                best = (n, d, q)
            if n == want:
                break
        if best is None:
            doc, query = [1, 2, 3], "$[*]"
        else:
            _, doc, query = best
    L = max(_source_len(query, doc), 0)
    n_ops = rng.randint(1, 40 if deep else 25) if rng.random() < 0.7 else rng.randint(1, 6)
    p_neg = rng.choice([0.0, 0.0, 0.05, 0.15])
    weights = {
        "limit": 3, "head": 1, "first": 1, "skip": 3, "drop": 1, "tail": 2, "last": 1,
        "take": 4, "tee": 3, "first_one": 2, "one": 1, "last_one": 1, "next": 5,
        "values": 1, "locations": 1, "items": 1, "pointers": 1, "iter": 1,
    }
    # swarm: disable a random subset of op kinds for this run
    for k in list(weights):
        if rng.random() < 0.2:
            weights[k] = 0
    if not any(weights.values()):
        weights["next"] = 1
    kinds = [k for k, w in weights.items() for _ in range(w)]
    ops: List[List[Any]] = []
    for _ in range(n_ops):
        kind = rng.choice(kinds)
        if kind == "tee":
            # None: tee() with its default argument (two copies)
            n = rng.choice([-1] if rng.random() < p_neg else [0, 1, 2, 2, None, None, 3, 3, 4, 5])
        elif kind in LIMIT_OPS + SKIP_OPS + TAIL_OPS + ["take"]:
            n = -1 if rng.random() < p_neg else (rng.randint(0, L + 2) if L <= 20 or rng.random() < 0.5 else rng.choice([255, 256, 257, L - 1, L, L + 1]))
        else:
            n = 0
        # a view may be consumed lazily, one element at a time, interleaved with operations on other handles
        ops.append([kind, n, 1] if (kind in VIEWS and rng.random() < 0.5) else [kind, n])
    plan = {
        "doc": doc,
        "query": query,
        "source": rng.choice(["module", "env", "compiled"]),
        "ops": ops,
        "final_views": [rng.choice(VIEWS) for _ in range(6)],
    }
    return {"property": PROPERTY, "config": config, "seed": seed, "knobs": {"p_sched": rng.choice([0.2, 0.4, 0.6])}, "plan": plan}


class _Handle:
    __slots__ = ("hid", "q", "model", "lineage", "last_op", "nops", "view")

    def __init__(self, hid: int, q: Any, model: List[int], lineage: str) -> None:
        self.hid = hid
        self.q = q
        self.model = model
        self.lineage = lineage
        self.last_op = "new"
        self.nops = 0
        self.view: Any = None  # (view name, open iterator) once a view is being consumed lazily


def _cls(n: int, length: int) -> str:
    if n < 0:
        return "<0"
    if n == 0:
        return "0"
    if n < length:
        return "<len"
    if n == length:
        return "=len"
    return ">len"


def execute(spec: Dict[str, Any], ctx: Ctx) -> None:
    plan = spec["plan"]
    doc = plan["doc"]
    query = plan["query"]
    env = jsonpath.JSONPathEnvironment()
    # reference: the engine's own full match list for this (query, document)
    ref = [(m.path, core.tj(m.obj), str(m.pointer())) for m in env.finditer(query, doc)]
    src = plan["source"]
    if src == "module":
        q0 = jsonpath.query(query, doc)
    elif src == "env":
        q0 = env.query(query, doc)
    else:
        q0 = env.compile(query).query(doc)
    ctx.log.add("source", src, query, "len", len(ref))
    if not ref:
        ctx.count("probe.empty_source")
    live: List[_Handle] = [_Handle(0, q0, list(range(len(ref))), "root")]
    next_id = 1
    executed = 0
    alternations = 0
    last_handle = -1
    handles_used: Dict[int, None] = {}

    def obs_match(m: Any) -> Any:
        return (m.path, core.tj(m.obj))

    def clause_for(h: _Handle, default: str) -> str:
        if "tee" in h.lineage:
            return "C12.tee"
        if "take" in h.lineage:
            return "C12.take"
        return default

    def check_drain(h: _Handle, view: str, clause: str) -> None:
        want_idx = h.model
        try:
            if view == "values":
                got = [core.tj(v) for v in h.q.values()]
                want = [ref[i][1] for i in want_idx]
            elif view == "locations":
                got = list(h.q.locations())
                want = [ref[i][0] for i in want_idx]
            elif view == "items":
                got = [(p, core.tj(v)) for p, v in h.q.items()]
                want = [(ref[i][0], ref[i][1]) for i in want_idx]
            elif view == "pointers":
                ptrs = list(h.q.pointers())
                got = [str(p) for p in ptrs]
                want = [ref[i][2] for i in want_idx]
            else:
                got = [obs_match(m) for m in h.q]
                want = [(ref[i][0], ref[i][1]) for i in want_idx]
        except Exception as e:  # noqa: BLE001
            raise Violation(
                clause_for(h, clause),
                f"draining handle {h.hid} ({h.lineage}) via {view} raised {type(e).__name__}: {e}",
                f"{clause}:raise:{type(e).__name__}",
            ) from None
        ctx.log.add("drain", h.hid, view, len(got))
        if got != want:
            raise Violation(
                clause_for(h, clause),
                f"handle {h.hid} ({h.lineage}) drained via {view}: got {core.short(got)} but the list model "
                f"says {core.short(want)} (source length {len(ref)})",
                f"{clause}:{view}",
            )

    def view_obs(view: str, item: Any) -> Any:
        if view == "values":
            return core.tj(item)
        if view == "locations":
            return item
        if view == "items":
            return (item[0], core.tj(item[1]))
        if view == "pointers":
            return str(item)
        return obs_match(item)

    def view_exp(view: str, i: int) -> Any:
        if view == "values":
            return ref[i][1]
        if view == "locations":
            return ref[i][0]
        if view == "pointers":
            return ref[i][2]
        return (ref[i][0], ref[i][1])

    def step_view(h: _Handle) -> bool:
        """One element of a lazily consumed view. Returns False when it is exhausted."""
        view, vit = h.view
        try:
            item = next(vit)
            got: Any = view_obs(view, item)
        except StopIteration:
            got = StopIteration
        except Exception as e:  # noqa: BLE001
            raise Violation(
                clause_for(h, "C12.drain"),
                f"stepping the {view} view of handle {h.hid} ({h.lineage}) raised {type(e).__name__}: {e}",
                f"C12.drain:lazy:{view}:raise:{type(e).__name__}",
            ) from None
        exp = view_exp(view, h.model[0]) if h.model else StopIteration
        ctx.log.add("viewstep", h.hid, view, len(h.model))
        if got != exp:
            raise Violation(
                clause_for(h, "C12.drain"),
                f"the {view} view of handle {h.hid} ({h.lineage}), consumed lazily, gave "
                f"{'end of iteration' if got is StopIteration else core.short(got)} but the list model says "
                f"{'end of iteration' if exp is StopIteration else core.short(exp)} ({len(h.model)} remaining)",
                f"C12.drain:lazy:{view}",
            )
        if got is StopIteration:
            return False
        h.model = h.model[1:]
        return True

    for op in plan["ops"]:
        kind, n = op[0], op[1]
        tee_default = n is None  # tee() called with its default argument
        if tee_default:
            n = 2
        lazy = len(op) > 2 and bool(op[2])
        if not live:
            break
        pick = ctx.choose(len(live), "handle")
        h = live.pop(pick)
        live.insert(0, h)
        ctx.switch(h.hid)
        if last_handle not in (-1, h.hid) and h.hid in handles_used:
            alternations += 1
            if "tee" in h.lineage:
                ctx.count("probe.tee_alternation")
        handles_used[h.hid] = None
        last_handle = h.hid
        executed += 1
        ctx.steps += 1
        if h.view is not None:
            ctx.count("probe.lazy_view_interleaved")
            if not step_view(h):
                live.remove(h)
            ctx.state(tuple(sorted(len(x.model) for x in live)), "viewstep")
            continue
        ctx.log.add("op", h.hid, kind, n, "remaining", len(h.model))
        ctx.state("pair", h.last_op, kind, _cls(n, len(h.model)))
        retire = False
        try:
            if n < 0:
                ctx.count("fault.negcount.configured")
                before = list(h.model)
                try:
                    getattr(h.q, kind)(n)
                except ValueError:
                    ctx.count("fault.negcount.fired")
                    ctx.count("probe.neg_refused")
                else:
                    raise Violation(
                        "C12.negative",
                        f"{kind}({n}) on handle {h.hid} was not refused with ValueError",
                        f"C12.negative:{kind}:accepted",
                    )
                h.model = before  # unchanged; verified by later observations
            elif kind in LIMIT_OPS:
                r = getattr(h.q, kind)(n)
                if r is not h.q:
                    h.q = r
                h.model = h.model[:n]
            elif kind in SKIP_OPS:
                r = getattr(h.q, kind)(n)
                if r is not h.q:
                    h.q = r
                h.model = h.model[n:]
            elif kind in TAIL_OPS:
                r = getattr(h.q, kind)(n)
                if r is not h.q:
                    h.q = r
                h.model = h.model[len(h.model) - n :] if 0 < n < len(h.model) else ([] if n == 0 else h.model)
            elif kind == "take":
                child_q = h.q.take(n)
                child = _Handle(next_id, child_q, h.model[:n], h.lineage + ">take-child")
                next_id += 1
                h.model = h.model[n:]
                if "take-parent" not in h.lineage:
                    h.lineage += ">take-parent"
                live.append(child)
                ctx.count("probe.take_then_parent")
            elif kind == "tee":
                if tee_default:
                    kids = h.q.tee()
                    ctx.count("probe.tee_default_argument")
                else:
                    kids = h.q.tee(n)
                if len(kids) != n:
                    raise Violation("C12.tee", f"tee({n}) returned {len(kids)} queries", "C12.tee:arity")
                for kq in kids:
                    live.append(_Handle(next_id, kq, list(h.model), h.lineage + ">tee"))
                    next_id += 1
                retire = True
            elif kind in ("first_one", "one"):
                m = getattr(h.q, kind)()
                want = h.model[0] if h.model else None
                got = None if m is None else obs_match(m)
                exp = None if want is None else (ref[want][0], ref[want][1])
                if got != exp:
                    raise Violation(
                        clause_for(h, "C12.step"),
                        f"{kind}() on handle {h.hid} ({h.lineage}) gave {core.short(got)}, list model says {core.short(exp)}",
                        f"C12.step:{kind}",
                    )
                h.model = h.model[1:]
            elif kind == "last_one":
                m = h.q.last_one()
                want = h.model[-1] if h.model else None
                got = None if m is None else obs_match(m)
                exp = None if want is None else (ref[want][0], ref[want][1])
                if got != exp:
                    raise Violation(
                        clause_for(h, "C12.step"),
                        f"last_one() on handle {h.hid} ({h.lineage}) gave {core.short(got)}, list model says {core.short(exp)}",
                        "C12.step:last_one",
                    )
                retire = True
            elif kind == "next":
                try:
                    m = next(iter(h.q))
                    got = obs_match(m)
                except StopIteration:
                    got = None
                exp = (ref[h.model[0]][0], ref[h.model[0]][1]) if h.model else None
                if got != exp:
                    raise Violation(
                        clause_for(h, "C12.step"),
                        f"next() on handle {h.hid} ({h.lineage}) gave {core.short(got)}, list model says {core.short(exp)}",
                        "C12.step:next",
                    )
                h.model = h.model[1:]
            elif kind in VIEWS and lazy:
                vit = iter(h.q) if kind == "iter" else iter(getattr(h.q, kind)())
                h.view = (kind, vit)
                ctx.log.add("viewopen", h.hid, kind)
            elif kind in VIEWS:
                if h.nops >= 3:
                    ctx.count("probe.drain_after_chain3")
                check_drain(h, kind, "C12.drain")
                retire = True
            else:
                raise core.HarnessError(f"unknown op {kind}")
        except Violation:
            raise
        except core.HarnessError:
            raise
        except Exception as e:  # noqa: BLE001
            raise Violation(
                clause_for(h, "C12.step"),
                f"{kind}({n}) on handle {h.hid} ({h.lineage}) raised {type(e).__name__}: {e}",
                f"C12.step:{kind}:raise:{type(e).__name__}",
            ) from None
        h.last_op = kind
        h.nops += 1
        if retire:
            live.remove(h)
        ctx.state(tuple(sorted(len(x.model) for x in live)), kind)

    # final: every live handle is drained and compared
    views = plan["final_views"]
    for i, h in enumerate(list(live)):
        if h.view is not None:
            guard = 0
            while step_view(h):
                guard += 1
                if guard > 10000:
                    raise Violation("C12.final", f"the {h.view[0]} view of handle {h.hid} does not end", "C12.final:endless")
            continue
        check_drain(h, views[i % len(views)], "C12.final")
    ctx.nontrivial = executed >= 3 and len(ref) >= 2 and alternations >= 1
    ctx.count("ops_executed", executed)
    ctx.count("alternations", alternations)


def shrink_plan(plan: Dict[str, Any]) -> Iterator[Dict[str, Any]]:
    for ops in ddmin_list(plan["ops"]):
        p = dict(plan)
        p["ops"] = ops
        yield p
    for i, o in enumerate(plan["ops"]):
        kind, n = o[0], o[1]
        if len(o) > 2 and o[2]:
            p = dict(plan)
            p["ops"] = [list(x) for x in plan["ops"]]
            p["ops"][i] = [kind, n]
            yield p
        if n is not None and n > 0:
            for m in (0, 1, n - 1):
                if 0 <= m < n:
                    p = dict(plan)
                    p["ops"] = [list(o) for o in plan["ops"]]
                    p["ops"][i][1] = m
                    yield p
    if plan["source"] != "compiled":
        p = dict(plan)
        p["source"] = "compiled"
        yield p
    for q in ("$[*]", "$..*"):
        if plan["query"] != q:
            p = dict(plan)
            p["query"] = q
            yield p
    for d in simpler_json(plan["doc"]):
        p = dict(plan)
        p["doc"] = d
        yield p


def repro(spec: Dict[str, Any], violation: Dict[str, str]) -> str:
    plan = spec["plan"]
    return (
        "import jsonpath\n"
        f"q = jsonpath.query({plan['query']!r}, {plan['doc']!r})\n"
        f"# apply ops {plan['ops']!r} choosing handles per 'choices'; compare with list slicing on list(finditer)\n"
    )
