"""C09 - evaluation is pure: read-only, repeatable, unaffected by caching or interleaving.

System under simulation: the whole package.  Shared world: environments
(filter caching on, off, the module-level default environment), query texts
compiled **once** per environment and shared by every client, documents and
filter contexts that differ exactly where the cacheable sub-expressions read.
Three schedulers, run as separate configurations:

* ``iter``    - lazy ``finditer`` pipelines as clients, one ``next()`` per step;
* ``tasks``   - the async API on a simulated event loop over an async store;
* ``threads`` - real threads, baton-passed, pre-empted at source lines inside
                ``jsonpath/`` (``sys.settrace``), compiling on and evaluating with
                shared environments and compiled queries.

Sequential specification: for every (query text, document, context) a fresh
environment with caching off, a fresh compile, in isolation.  Every produced
match is compared with it at the step that produces it.
"""
from __future__ import annotations

import asyncio
import copy
import gc
import os
import re
from typing import Any
from typing import Dict
from typing import Iterator
from typing import List
from typing import Optional
from typing import Tuple

import jsonpath
from jpsim import core
from jpsim import gen_json
from jpsim import gen_query
from jpsim import tripwire
from jpsim.core import Ctx
from jpsim.core import Violation
from jpsim.loop import SimBudget
from jpsim.loop import SimDeadlock
from jpsim.loop import SimLoop
from jpsim.loop import run_sim
from jpsim.runner import ddmin_list
from jpsim.runner import simpler_json
from jpsim.store import Store
from jpsim.store import wrap
from jpsim.threads import LockDeadlock
from jpsim.threads import ThreadSched

PROPERTY = "C09"
BUDGET = {
    "quick": {"iter": 12000, "iter_faultfree": 6000, "tasks": 6000, "threads": 14000},
    "thorough": {"iter": 400000, "iter_faultfree": 150000, "tasks": 150000, "threads": 200000},
}
FAULT_KINDS = ["abandon", "cancel", "storeerr", "gc", "repurge", "preempt", "delay"]
TIME_UNIT = "virtual seconds (tasks configuration only); logical steps = iterator steps / loop iterations / traced source lines"
RULE = (
    "one run = 1-3 shared environments (caching on / off / module default), 2-6 query texts compiled once per "
    "environment with at least one document-independent and one per-node sub-expression in most filters, 2-5 documents "
    "and 1-2 filter contexts that differ where those sub-expressions read, and 2-6 clients (lazy iterators, asyncio "
    "tasks or pre-empted threads) whose operations are interleaved by the seeded scheduler; faults: abandon, cancel, "
    "store error, gc, re.purge, pre-emption. Non-trivial: two evaluations of the same compiled filter query over "
    "different documents/contexts were mid-flight at the same step, or a thread was pre-empted inside a library file "
    "while another thread was inside the same file; distinct by event-log digest."
)
STATES_MEASURE = "distinct (client kind, cache config, op, fault kind / file of pre-emption) tuples"
REAL = ["jsonpath package (lexer, parser, selectors, filter expression cache tree, env)", "CPython generators, asyncio tasks, threads"]
STUB = ["IterSched (iterator scheduler)", "SimLoop + SimMap/SimSeq (tasks configuration)", "ThreadSched (baton-passed threads, sys.settrace line pre-emption)"]
ASSUMPTIONS = [
    "sequential specification: fresh environment, caching off, fresh compile, isolated evaluation on the same document",
    "thread pre-emption points are source lines inside jsonpath/ (not bytecodes)",
    "the compiled query is 'unchanged' if str(), == to a pristine recompile and its public selector sequence (compared with ==) are unchanged; private attributes are not fingerprinted",
    "object identity of matches is not compared; identity of document nodes is (replacing a node by an equal copy is a write)",
]
PROBES = [
    "filter_with_cacheable_nodes_evaluated", "reuse_depth_ge_100", "preempted_inside_compile", "preempted_inside_filter",
    "abandoned_mid_filter", "cancel_inside_evaluation", "repurge_between_regex_calls", "same_query_two_docs_midflight",
    "preempt_same_file_two_threads", "compiled_many_other_texts", "short_lived_documents", "filter_raised_type_error",
    "foreign_environment_in_process", "sync_use_between_suspended_tasks", "refused_text_on_shared_environment",
]
_SCRATCH_ENV = tripwire.register(jsonpath.JSONPathEnvironment())
tripwire.register(jsonpath.DEFAULT_ENV)  # a constant, stateless addition to the module-level environment
ENVS = ["on", "off", "default"]


# --------------------------------------------------------------------------
# generation


def _variant(rng: Any, doc: Any, k: int) -> Any:
    d = copy.deepcopy(doc)
    if isinstance(d, dict) and d and rng.random() < 0.35:
        # a member present in one document and absent in the next (an empty node list is a result too)
        del d[rng.choice(list(d))]
    if isinstance(d, dict) and rng.random() < 0.2:
        d[rng.choice(gen_json.KEYS_PLAIN)] = rng.choice(gen_json.SCALARS)
    leaves = [(l, v) for l, v in gen_json.walk(d) if l and not isinstance(v, (dict, list))]
    for _ in range(k):
        if not leaves:
            break
        l, _v = rng.choice(leaves)
        node = d
        for key in l[:-1]:
            node = node[key]
        node[l[-1]] = rng.choice(gen_json.SCALARS)
    return d


def generate(seed: int, config: str, tier: str) -> Dict[str, Any]:
    rng = core.stream(seed, "gen")
    frng = core.stream(seed, "fault")
    faulty = config != "iter_faultfree"
    kind = {"iter": "iter", "iter_faultfree": "iter", "tasks": "tasks", "threads": "threads"}[config]
    prof = gen_json.profile(rng)
    prof["max_children"] = min(prof["max_children"], 3)
    regex_heavy = rng.random() < (0.35 if kind == "threads" else 0.1)
    if regex_heavy:
        prof["stringy"] = True  # strings for the patterns to work on
        prof["max_children"] = 3
    base = gen_json.gen_document(rng, prof)
    while gen_json.count_nodes(base) > 25:
        base = gen_json.gen_document(rng, prof)
    docs = [base]
    for _ in range(rng.randint(1, 4)):
        r = rng.random()
        if r < 0.6:
            docs.append(_variant(rng, base, rng.randint(1, 3)))
        elif r < 0.75:
            docs.append(copy.deepcopy(base))
        else:
            d = gen_json.gen_document(rng, prof)
            docs.append(d if gen_json.count_nodes(d) <= 25 else _variant(rng, base, 2))
    ctxs: List[Any] = [None]
    if rng.random() < 0.6:
        c0 = {"a": rng.choice([1, 2, "a"]), "b": [2, 3], "x": {"y": rng.choice([1, 10])}}
        c1 = copy.deepcopy(c0)
        c1["a"] = rng.choice([1, 2, "a", None])
        c1["x"]["y"] = rng.choice([1, 10, "1"])
        ctxs = [c0, c1]
    opts = gen_query.default_opts(rng)
    opts["cache_bias"] = rng.random() < 0.7
    opts["p_filter"] = max(opts["p_filter"], 0.5)
    opts["p_root"] = 0.35
    opts["p_ctx"] = 0.25 if ctxs[0] is not None else 0.0
    if ctxs[0] is not None or rng.random() < 0.5:
        opts["p_ext"] = max(opts["p_ext"], 0.15)
    if faulty and frng.random() < 0.3:
        opts["p_trip"] = 0.2  # some filters die half-way with the one error family a filter may raise
    opts["p_flat"] = 0.25
    if regex_heavy:
        opts["p_regex_fn"] = 0.7  # regex-heavy: the function-extension instances are shared by every evaluation
        opts["p_flat"] = 0.8
    # a differently configured environment living in the same process (iterator and thread configurations)
    foreign = None
    if kind != "tasks" and rng.random() < 0.2:
        foreign = {"when": rng.choice(["early", "late"]), "caching": rng.random() < 0.5}
        opts["p_str_lit"] = 0.3  # string literals whose escapes the two configurations decode differently
    qrng = core.stream(seed, "queries")

    def _gen_queries() -> List[str]:
        out: List[str] = []
        for _ in range(qrng.randint(2, 6)):
            d = qrng.choice(docs)
            out.extend(
                gen_query.gen_queries(qrng, _SCRATCH_ENV, d, 1, ctx_doc=ctxs[0], opts=opts, p_compound=0.1, must_filter=qrng.random() < 0.8)
            )
        return out

    # Generating queries compiles every candidate text once (to drop the ones the library refuses).  When the run
    # is about what another configuration leaves behind in the process, even that must not happen in the process
    # that executes the run: generate in a forked child.
    queries: List[str] = core.in_child(_gen_queries) if foreign is not None else _gen_queries()
    envs = [e for e in ENVS if rng.random() < 0.6] or [rng.choice(ENVS)]
    deep = tier == "thorough"  # larger worlds in the thorough tier
    n_clients = rng.randint(2, 8 if deep else 6) if kind != "threads" else rng.randint(3 if regex_heavy else 2, 5 if deep else 4)
    clients: List[List[List[Any]]] = []
    focus = (rng.choice(envs), rng.randrange(len(queries)))
    for _ in range(n_clients):
        script: List[List[Any]] = []
        n_ops = rng.randint(2, 14 if deep else 10) if kind != "threads" else rng.randint(1, 7 if deep else 5)
        for _ in range(n_ops):
            e = rng.choice(envs)
            qi = rng.randrange(len(queries))
            if rng.random() < 0.6:
                # swarm bias: most clients hammer the same compiled query (one shared cache tree to fight over)
                e, qi = focus
            di = rng.randrange(len(docs))
            ci = rng.randrange(len(ctxs))
            r = rng.random()
            if foreign is not None and rng.random() < 0.12:
                script.append(["foreign", e, rng.randrange(len(queries)), di, ci])
                continue
            if kind == "iter":
                if r < 0.45:
                    ab = frng.randrange(4) if (faulty and frng.random() < 0.2) else None
                    script.append(["iterate", e, qi, di, ci, ab])
                elif r < 0.7:
                    script.append(["findall", e, qi, di, ci])
                elif r < 0.78:
                    script.append(["hot", e, qi, [rng.randrange(len(docs)) for _ in range(rng.randint(1, 3))], ci,
                                   rng.choice([3, 10, (1000 if deep and rng.random() < 0.1 else 100) if rng.random() < 0.3 else 20])])
                elif r < 0.83:
                    script.append(["recompile", e, qi, di, ci])
                elif r < 0.86:
                    script.append(["envfind", e, qi, di, ci])
                elif r < 0.92:
                    script.append(rng.choice([
                        # short-lived copies of the documents: created, evaluated, dropped (addresses get reused)
                        ["ephemeral", e, qi, [rng.randrange(len(docs)) for _ in range(rng.randint(2, 4))], ci, rng.choice([6, 20, 60])],
                        # many other texts compiled on the shared environment (more than any plausible memo holds)
                        ["compile_many", e, qi, di, ci, rng.choice([5, 40, 140, 300])],
                    ]))
                elif faulty:
                    script.append([frng.choice(["gc", "repurge"])])
                else:
                    script.append(["findall", e, qi, di, ci])
            elif kind == "tasks":
                if r < 0.5:
                    script.append(["iterate", e, qi, di, ci, frng.randrange(4) if frng.random() < 0.15 else None])
                elif r < 0.8:
                    script.append(["findall", e, qi, di, ci])
                elif r < 0.85:
                    # synchronous uses of the shared compiled query in between the tasks' suspended evaluations
                    script.append(["recompile", e, qi, di, ci])
                elif r < 0.9:
                    script.append(["hot", e, qi, [rng.randrange(len(docs)) for _ in range(rng.randint(1, 3))], ci, rng.choice([3, 10])])
                elif r < 0.93:
                    script.append(["envfind", e, qi, di, ci])
                else:
                    script.append([frng.choice(["gc", "repurge"])])
            else:
                if r < 0.22:
                    script.append(["recompile", e, qi, di, ci])
                elif r < 0.3:
                    script.append(["compile_many", e, qi, di, ci, rng.choice([5, 5, 12, 40])])
                elif r < 0.4:
                    script.append(["envfind", e, qi, di, ci])
                elif r < 0.6:
                    script.append(["findall", e, qi, di, ci])
                elif r < 0.65:
                    # repeated use of the shared compiled query while the other threads are inside it
                    script.append(["hot", e, qi, [rng.randrange(len(docs)) for _ in range(rng.randint(1, 3))], ci, rng.choice([3, 3, 10])])
                elif r < 0.95:
                    script.append(["iterate", e, qi, di, ci, None])
                else:
                    script.append([frng.choice(["gc", "repurge"])])
        clients.append(script)
    faults: Dict[str, Any] = {"cancels": [], "storeerr": []}
    wraps = [{"mode": "none", "depths": []} for _ in docs]
    if kind == "tasks":
        from jpsim.store import sites

        wraps = [{"mode": rng.choice(["all", "all", "depths", "none"]), "depths": sorted({rng.randrange(3) for _ in range(2)})} for _ in docs]
        if frng.random() < 0.5:
            for _ in range(frng.choice([1, 2, 3])):
                faults["cancels"].append([frng.randrange(1, 60), frng.randrange(n_clients)])
        if frng.random() < 0.3:
            di = frng.randrange(len(docs))
            ss = sites(docs[di], f"d{di}")
            if ss:
                p, k = frng.choice(ss)
                faults["storeerr"].append([p, k, frng.choice(["store", "store", "key", "index", "type", "value"])])
    elif faulty and frng.random() < 0.3:
        # documents whose item access fails at one place: an evaluation dies half-way, the next ones must not care
        from jpsim.store import sites

        wraps = [{"mode": frng.choice(["all", "depths"]), "depths": sorted({frng.randrange(3) for _ in range(2)})} for _ in docs]
        di = frng.randrange(len(docs))
        ss = sites(docs[di], f"d{di}")
        if ss:
            p, k = frng.choice(ss)
            faults["storeerr"].append([p, k, frng.choice(["store", "key", "index", "type", "value"])])
    plan = {"kind": kind, "docs": docs, "wraps": wraps, "ctxs": ctxs, "queries": queries, "envs": envs, "clients": clients, "faults": faults,
            "foreign": foreign}
    knobs = {"p_sched": rng.choice([0.3, 0.5, 0.7]), "p_get": rng.choice([0.3, 0.6]), "p_quantum": rng.choice([0.5, 0.8, 0.95]),
             # regex-heavy thread runs aim their pre-emptions at the function-extension instances all evaluations share
             "focus": "function_extensions" if (regex_heavy and kind == "threads") else None}
    return {"property": PROPERTY, "config": config, "seed": seed, "knobs": knobs, "plan": plan}


# --------------------------------------------------------------------------
# world, reference, invariants


class _Ref:
    __slots__ = ("ms", "exc", "all_exc")

    def __init__(self, ms: List[Any], exc: Optional[str], all_exc: Any = 0) -> None:
        self.ms = ms
        self.exc = exc  # what find-iter raises (after producing ms), if anything
        # what find-all raises, if anything (a compound query evaluates its operands in a
        # different order in find-all and find-iter, so with two lurking errors the class may differ)
        self.all_exc = exc if all_exc == 0 else all_exc

    def for_findall(self) -> "_Ref":
        return _Ref([("?", v) for _, v in self.ms], self.all_exc)

    def show(self) -> str:
        s = core.short([[p, _untj(v)] for p, v in self.ms], 300)
        return s + (f" then raises {self.exc}" if self.exc else "")


def _untj(t: Any) -> Any:
    if not isinstance(t, tuple) or not t:
        return t
    k = t[0]
    if k == "n":
        return None
    if k in ("b", "i", "s"):
        return t[1]
    if k == "f":
        return float(t[1])
    if k == "o":
        return {a: _untj(b) for a, b in t[1]}
    if k == "l":
        return [_untj(x) for x in t[1]]
    return repr(t)


def _container_ids(v: Any, out: List[int]) -> None:
    inner = getattr(v, "_d", None)
    if inner is None:
        inner = getattr(v, "_l", None)
    if inner is not None:
        out.append(id(v))
        v = inner
    if isinstance(v, dict):
        out.append(id(v))
        for x in v.values():
            _container_ids(x, out)
    elif isinstance(v, list):
        out.append(id(v))
        for x in v:
            _container_ids(x, out)


class World:
    def __init__(self, plan: Dict[str, Any], ctx: Ctx, store: Optional[Store]) -> None:
        self.plan = plan
        self.ctx = ctx
        self.texts: List[str] = plan["queries"]
        self.envs: Dict[str, Any] = {}
        for e in plan["envs"]:
            if e == "on":
                self.envs[e] = tripwire.register(jsonpath.JSONPathEnvironment(filter_caching=True))
            elif e == "off":
                self.envs[e] = tripwire.register(jsonpath.JSONPathEnvironment(filter_caching=False))
            else:
                self.envs[e] = jsonpath.DEFAULT_ENV
        self.store = store
        self.docs: List[Any] = [self.fresh_doc(i) for i in range(len(plan["docs"]))]
        self.ctxs: List[Any] = [copy.deepcopy(c) for c in plan["ctxs"]]
        # sequential specification: an environment of its own with caching off, a fresh compile per evaluation
        self._ref_env = tripwire.register(jsonpath.JSONPathEnvironment(filter_caching=False))
        self.foreign = plan.get("foreign")
        self.refs: Dict[Tuple[int, int, int], _Ref] = {}
        self.frefs: Dict[Tuple[int, int, int], _Ref] = {}
        self.foreign_env: Any = None
        self.foreign_compiled: Dict[int, Any] = {}
        if self.foreign:
            # References first, in a forked child: whatever the foreign environment does to process-global
            # state afterwards (or did, had it come first) cannot reach into them.
            self.refs, self.frefs, self.child_strs = core.in_child(self._all_refs)
            ctx.count("probe.foreign_environment_in_process")
            if self.foreign["when"] == "early":
                self._make_foreign()
        else:
            self.refs, _, self.child_strs = self._all_refs(False)
        for r_ in self.refs.values():
            if r_.exc == "JSONPathTypeError" or r_.all_exc == "JSONPathTypeError":
                ctx.count("probe.filter_raised_type_error")
        # shared compiled queries: compiled once per environment
        self.compiled: Dict[Tuple[str, int], Any] = {}
        self.compiled_str: Dict[Tuple[str, int], str] = {}
        self.compiled_sel: Dict[Tuple[str, int], Any] = {}
        # a second compile of the same text on the same environment, never evaluated: what "unchanged" is compared with
        self.pristine: Dict[Tuple[str, int], Any] = {}
        for qi, t in enumerate(self.texts):
            for e, env in self.envs.items():
                try:
                    c = env.compile(t)
                    self.pristine[(e, qi)] = env.compile(t)
                except Exception as ex:  # noqa: BLE001
                    # the text compiled when the workload was generated (another environment, same options)
                    raise Violation(
                        "C09.recompile",
                        f"compiling {t!r} on environment {e} raised {type(ex).__name__}: {ex}; the same text compiled on another "
                        f"environment with the same options when this run was generated",
                        f"C09.recompile:raise:{type(ex).__name__}",
                    ) from None
                self.compiled[(e, qi)] = c
                self.compiled_str[(e, qi)] = str(c)
                self.compiled_sel[(e, qi)] = self._selinfo(c)
        if self.foreign and self.foreign["when"] == "late":
            self._make_foreign()
        if self.foreign:
            self._check_child_strs()
        self.doc_snap = [core.tj(d) for d in self.docs]
        self.doc_ids: List[List[int]] = []
        for d in self.docs:
            ids: List[int] = []
            _container_ids(d, ids)
            self.doc_ids.append(ids)
        self.ctx_snap = [core.tj(c) for c in self.ctxs]
        self.ctx_ids: List[List[int]] = []
        for c in self.ctxs:
            ids = []
            _container_ids(c, ids)
            self.ctx_ids.append(ids)
        # matches handed out earlier stay what they were: (match object, what it looked like, who produced it)
        self.retained: List[Tuple[Any, Any, str]] = []
        e0 = next(iter(self.envs))
        self.has_cacheable = [self._cacheable(self.pristine[(e0, qi)]) for qi in range(len(self.texts))]
        self.uses_regex_fn = [("match(" in t or "search(" in t) for t in self.texts]

    def _all_refs(self, with_strs: bool = True) -> Any:
        """References of every (query, document, context) the run will evaluate.

        Order matters when this runs in a forked child on behalf of a run with a foreign configuration: everything
        about the *standard* configuration is computed before a differently configured environment exists in the
        process at all, and only then the foreign one is built and its own references are taken."""
        refs: Dict[Tuple[int, int, int], _Ref] = {}
        frefs: Dict[Tuple[int, int, int], _Ref] = {}
        strs: Dict[str, Any] = {}
        fkeys: List[Tuple[int, int, int]] = []
        for script in self.plan["clients"]:
            for op in script:
                if len(op) < 5:
                    continue
                qi = op[2] % len(self.texts)
                ci = op[4] % len(self.ctxs)
                dis = (list(op[3]) + [0]) if isinstance(op[3], list) else [op[3]]
                for d in dis:
                    key = (qi, d % len(self.docs), ci)
                    if op[0] == "foreign":
                        if key not in fkeys:
                            fkeys.append(key)
                    elif key not in refs:
                        refs[key] = self._reference(self.texts[qi], key[1], ci)

        def _strs(name: str, env: Any) -> None:
            # how each text prints when compiled where nothing else has been compiled yet
            for qi, t in enumerate(self.texts):
                try:
                    strs[f"{name}:{qi}"] = str(env.compile(t))
                except Exception as ex:  # noqa: BLE001
                    strs[f"{name}:{qi}"] = ("exc", type(ex).__name__)

        if with_strs:
            _strs("std", self._ref_env)
        if with_strs or fkeys:
            fenv = tripwire.foreign_environment(False)
            if with_strs:
                _strs("foreign", fenv)
            for key in fkeys:
                frefs[key] = self._reference(self.texts[key[0]], key[1], key[2], fenv)
        return refs, frefs, strs

    def _check_child_strs(self) -> None:
        """Compiling a text must give the same query whatever else was compiled in the process before."""
        for qi, t in enumerate(self.texts):
            for (e, q), c in self.compiled.items():
                if q != qi:
                    continue
                want = self.child_strs.get(f"std:{qi}")
                if want is not None and not isinstance(want, tuple) and str(c) != want:
                    raise Violation(
                        "C09.recompile",
                        f"{t!r} compiled on environment {e} prints {str(c)!r}; compiled where no differently configured "
                        f"environment had been used it prints {want!r}",
                        "C09.recompile:depends-on-other-environment",
                    )
            fc = self.foreign_compiled.get(qi)
            want = self.child_strs.get(f"foreign:{qi}")
            if fc is not None and want is not None:
                got: Any = ("exc", type(fc).__name__) if isinstance(fc, Exception) else str(fc)
                if (isinstance(want, tuple)) != (isinstance(got, tuple)) or (not isinstance(want, tuple) and got != want):
                    raise Violation(
                        "C09.recompile",
                        f"{t!r} compiled on the differently configured environment gives {got!r}; compiled where no other "
                        f"environment had been used it gives {want!r}",
                        "C09.recompile:foreign-depends-on-other-environment",
                    )

    def _make_foreign(self) -> None:
        """Build the differently configured environment and compile every text of the run on it."""
        self.foreign_env = tripwire.foreign_environment(bool(self.foreign.get("caching", True)))
        for qi, t in enumerate(self.texts):
            try:
                self.foreign_compiled[qi] = self.foreign_env.compile(t)
            except Exception as ex:  # noqa: BLE001
                self.foreign_compiled[qi] = ex

    def fresh_doc(self, i: int) -> Any:
        """A new copy of document *i*, wrapped (same failing sites) exactly like the shared one."""
        d2 = copy.deepcopy(self.plan["docs"][i])
        if self.store is not None:
            wr = self.plan["wraps"][i]
            d2 = wrap(d2, self.store, wr["mode"], wr["depths"], 0, f"d{i}")
        return d2

    @staticmethod
    def _selinfo(c: Any) -> Any:
        """The public selector sequence of a compiled query (or of each operand of a compound one).

        Held by reference: a later comparison with == notices a selector that was replaced by a
        different one; it does not insist on object identity (a computed `selectors` property is fine)."""
        sels = getattr(c, "selectors", None)
        if sels is not None:
            return list(sels)
        out: List[Any] = []
        first = getattr(c, "path", None)
        if first is not None:
            out.append(World._selinfo(first))
        for op, p in getattr(c, "paths", ()) or ():
            out.append(op)
            out.append(World._selinfo(p))
        return out

    @staticmethod
    def _cacheable(c: Any) -> bool:
        try:
            paths = [c] if hasattr(c, "selectors") else [c.path] + [p for _, p in c.paths]
            for p in paths:
                for seg in p.selectors:
                    for item in getattr(seg, "items", ()) or ():
                        if getattr(item, "cacheable_nodes", False):
                            return True
        except Exception:  # noqa: BLE001
            return False
        return False

    def _reference(self, text: str, di: int, ci: int, env: Any = None) -> _Ref:
        env = env or self._ref_env
        ms: List[Any] = []
        exc: Optional[str] = None
        try:
            c = env.compile(text)
            kw = {"filter_context": self.ctxs[ci]} if self.ctxs[ci] is not None else {}
            for m in c.finditer(self.docs[di], **kw):
                ms.append((m.path, core.tj(m.obj)))
        except Exception as e:  # noqa: BLE001
            exc = type(e).__name__
        all_exc: Optional[str] = None
        if exc is not None:
            try:
                kw = {"filter_context": self.ctxs[ci]} if self.ctxs[ci] is not None else {}
                env.compile(text).findall(self.docs[di], **kw)
            except Exception as e:  # noqa: BLE001
                all_exc = type(e).__name__
        return _Ref(ms, exc, all_exc)

    def kw(self, ci: int) -> Dict[str, Any]:
        return {"filter_context": self.ctxs[ci]} if self.ctxs[ci] is not None else {}

    # ---- invariants (checked after every op)
    def check_world(self, after: str, touched: Any = None, full: bool = False) -> None:
        for i, d in enumerate(self.docs):
            if core.tj(d) != self.doc_snap[i]:
                raise Violation(
                    "C09.doc",
                    f"after {after}: document {i} is now {core.short(core.unwrap(d), 300)}; it was {core.short(self.plan['docs'][i], 300)}",
                    "C09.doc:value-changed",
                )
            ids: List[int] = []
            _container_ids(d, ids)
            if ids != self.doc_ids[i]:
                raise Violation(
                    "C09.doc",
                    f"after {after}: a container node of document {i} was replaced by another object (equal value, different identity)",
                    "C09.doc:identity-changed",
                )
        for i, c in enumerate(self.ctxs):
            if c is None:
                continue
            if core.tj(c) != self.ctx_snap[i]:
                raise Violation(
                    "C09.ctx",
                    f"after {after}: filter context {i} is now {core.short(c, 300)}; it was {core.short(self.plan['ctxs'][i], 300)}",
                    "C09.ctx:value-changed",
                )
            ids = []
            _container_ids(c, ids)
            if ids != self.ctx_ids[i]:
                raise Violation("C09.ctx", f"after {after}: a node of filter context {i} was replaced by another object", "C09.ctx:identity-changed")
        if full:
            self.check_retained(after)
        for key, c in self.compiled.items():
            if not full and key != touched:
                continue
            if str(c) != self.compiled_str[key]:
                raise Violation(
                    "C09.query",
                    f"after {after}: the compiled query for {self.texts[key[1]]!r} (env {key[0]}) now prints {str(c)!r}; it printed "
                    f"{self.compiled_str[key]!r} when compiled",
                    "C09.query:str-changed",
                )
            if not (c == self.pristine[key]):
                raise Violation(
                    "C09.query",
                    f"after {after}: the compiled query for {self.texts[key[1]]!r} (env {key[0]}) is no longer equal to a pristine compile of the same text",
                    "C09.query:neq-pristine",
                )
            if self._selinfo(c) != self.compiled_sel[key]:
                raise Violation(
                    "C09.query",
                    f"after {after}: the selectors of the compiled query for {self.texts[key[1]]!r} (env {key[0]}) were replaced",
                    "C09.query:selectors-replaced",
                )

    def retain(self, m: Any, got: Any, desc: str) -> None:
        if len(self.retained) < 64:
            self.retained.append((m, (got, tuple(m.parts)), desc))

    def check_retained(self, after: str) -> None:
        for m, (got, parts), desc in self.retained:
            now = ((m.path, core.tj(m.obj)), tuple(m.parts))
            if now != (got, parts):
                raise Violation(
                    "C09.result",
                    f"after {after}: a match returned earlier by [{desc}] now reads {core.short([m.path, list(m.parts), core.unwrap(m.obj)], 200)}; "
                    f"when it was returned it read {core.short([got[0], list(parts), _untj(got[1])], 200)}",
                    "C09.result:retained-match-changed",
                )

    def bad_match(self, desc: str, k: int, got: Any, ref: _Ref) -> Violation:
        exp = ref.ms[k] if k < len(ref.ms) else None
        return Violation(
            "C09.result",
            f"{desc}: match #{k} is {core.short([got[0], _untj(got[1])], 200)} but an isolated evaluation (fresh environment, caching off) gives "
            f"{core.short([exp[0], _untj(exp[1])], 200) if exp else 'no further match'} (isolated: {ref.show()})",
            "C09.result:match",
        )

    def check_all(self, desc: str, got: List[Any], exc: Optional[str], ref: _Ref, lenient_prefix: bool = False) -> None:
        if exc != ref.exc:
            raise Violation(
                "C09.result",
                f"{desc}: {'raises ' + exc if exc else 'returns ' + core.short([[p, _untj(v)] for p, v in got], 200)} but an isolated evaluation "
                f"(fresh environment, caching off) gives {ref.show()}",
                f"C09.result:exc:{exc}-vs-{ref.exc}",
            )
        if exc:
            # Both raise the same class.  How many matches a lazy evaluation hands out before it raises is
            # not part of the statement (an eager implementation raises first); what was handed out must
            # still be what the isolated evaluation hands out at those positions.
            n = min(len(got), len(ref.ms))
            if lenient_prefix or got[:n] == ref.ms[:n]:
                return
        if got != ref.ms:
            k = next((i for i, (a, b) in enumerate(zip(got, ref.ms)) if a != b), min(len(got), len(ref.ms)))
            raise Violation(
                "C09.result",
                f"{desc}: returns {core.short([[p, _untj(v)] for p, v in got], 300)} but an isolated evaluation (fresh environment, "
                f"caching off) gives {ref.show()} (first difference at #{k})",
                "C09.result:list",
            )


# --------------------------------------------------------------------------
# iterator configuration


class _Handle:
    __slots__ = ("it", "ref", "pos", "abandon_after", "desc", "key", "qkey")

    def __init__(self, it: Any, ref: _Ref, abandon_after: Optional[int], desc: str, key: Tuple[int, int, int], qkey: Tuple[str, int]):
        self.it = it
        self.ref = ref
        self.pos = 0
        self.abandon_after = abandon_after
        self.desc = desc
        self.key = key
        self.qkey = qkey


def _idx(op: List[Any], w: World) -> Tuple[str, int, int, int]:
    e = op[1] if op[1] in w.envs else next(iter(w.envs))
    return e, op[2] % len(w.texts), (op[3] if isinstance(op[3], int) else 0) % len(w.docs), op[4] % len(w.ctxs)


def _touched(op: List[Any], w: World) -> Any:
    if len(op) < 5:
        return None
    e, qi, _di, _ci = _idx(op, w)
    return (e, qi)


def _sync_op(w: World, ctx: Ctx, cid: int, op: List[Any], yield_point: Any = None, live_reg: Any = None) -> Optional[_Handle]:
    """Synchronous ops shared by the iterator and thread configurations (except stepwise iterate)."""
    kind = op[0]
    if kind == "gc":
        gc.collect(1)
        ctx.count("fault.gc.configured")
        ctx.count("fault.gc.fired")
        ctx.log.add("gc", cid)
        ctx.state("iter", "-", "gc")
        return None
    if kind == "repurge":
        re.purge()
        ctx.count("fault.repurge.configured")
        ctx.count("fault.repurge.fired")
        ctx.log.add("repurge", cid)
        if any(w.uses_regex_fn):
            ctx.count("probe.repurge_between_regex_calls")
        ctx.state("iter", "-", "repurge")
        return None
    e, qi, di, ci = _idx(op, w)
    if kind == "foreign":
        fc = w.foreign_compiled.get(qi)
        fref = w.frefs.get((qi, di, ci))
        if fc is None or fref is None:
            return None
        gotf: List[Any] = []
        excf: Optional[str] = None
        if isinstance(fc, Exception):
            excf = type(fc).__name__
        else:
            try:
                for m in fc.finditer(w.docs[di], **w.kw(ci)):
                    gotf.append((m.path, core.tj(m.obj)))
            except Exception as ex:  # noqa: BLE001
                excf = type(ex).__name__
        ctx.log.add("foreign", cid, qi, di, ci, excf or len(gotf))
        ctx.state("sync", "foreign", "evaluate")
        w.check_all(f"client {cid}: {w.texts[qi]!r} on the differently configured environment (no escape decoding, other "
                    f"function table), document {di}, context {ci}", gotf, excf, fref)
        return None
    c = w.compiled[(e, qi)]
    ref = w.refs[(qi, di, ci)]
    desc = f"client {cid}: {kind} {w.texts[qi]!r} (env {e}) on document {di}, context {ci}"
    if w.has_cacheable[qi] and e != "off":
        ctx.count("probe.filter_with_cacheable_nodes_evaluated")
    if kind == "findall":
        got: List[Any] = []
        exc: Optional[str] = None
        try:
            # values through findall, paths through a second finditer: both must be the reference
            vals = c.findall(w.docs[di], **w.kw(ci))
            got_vals = [core.tj(v) for v in vals]
        except Exception as ex:  # noqa: BLE001
            exc = type(ex).__name__
            got_vals = []
        ctx.log.add("findall", cid, e, qi, di, ci, exc or len(got_vals))
        w.check_all(desc, [("?", v) for v in got_vals], exc, ref.for_findall(), True)
        ctx.state("sync", e, "findall")
        return None
    if kind == "compile_many":
        n = int(op[5])
        env = w.envs[e]
        base = ctx.seed % 1000
        for k in range(n):
            if k % 3 == 1:
                # a text the environment refuses, given up on at some depth inside a filter: whatever the parser
                # was in the middle of must not be there for the next text
                bad = [f"$.k{k}[?@.v == ]", f"$[?@.a[?@.b == {k} && ]]", f"$[?(@.a == {k}", f"$[?nosuch{k}(@.a)]", f"$.k{k}[?@.a[?@.b[?@.c ==]]]"][(k // 3) % 5]
                try:
                    env.compile(bad)
                except Exception:  # noqa: BLE001
                    ctx.count("probe.refused_text_on_shared_environment")
                continue
            text = f"$.k{base}_{cid}_{k}[?@.v == {k}]" if k % 3 == 0 else f"$.k{base}_{cid}_{k}"
            try:
                env.compile(text)
            except Exception as ex:  # noqa: BLE001
                raise Violation(
                    "C09.recompile",
                    f"client {cid}: compiling {text!r} on the shared environment {e} raised {type(ex).__name__}: {ex}",
                    f"C09.recompile:raise:{type(ex).__name__}",
                ) from None
        ctx.steps += n
        ctx.count("probe.compiled_many_other_texts")
        ctx.log.add("compile_many", cid, e, n)
        ctx.state("sync", e, "compile_many", n)
        return None
    if kind == "ephemeral":
        n = int(op[5])
        dis = [d % len(w.docs) for d in op[3]] or [0]
        for k in range(n):
            dj = dis[k % len(dis)]
            r = w.refs[(qi, dj, ci)]
            tmp = w.fresh_doc(dj)
            got5: List[Any] = []
            exc5: Optional[str] = None
            try:
                for m in c.finditer(tmp, **w.kw(ci)):
                    got5.append((m.path, core.tj(m.obj)))
            except Exception as ex:  # noqa: BLE001
                exc5 = type(ex).__name__
            m = None  # the last match keeps its root document alive
            del tmp
            w.check_all(f"{desc} (short-lived copy #{k + 1} of {n}, document {dj})", got5, exc5, r)
            ctx.steps += 1
        ctx.count("probe.short_lived_documents")
        ctx.log.add("ephemeral", cid, e, qi, n)
        ctx.state("sync", e, "ephemeral", n)
        return None
    if kind == "envfind":
        # the environment-level entry point compiles the text again on the shared environment and evaluates
        exc4: Optional[str] = None
        vals4: List[Any] = []
        try:
            vals4 = [core.tj(v) for v in w.envs[e].findall(w.texts[qi], w.docs[di], **w.kw(ci))]
        except Exception as ex:  # noqa: BLE001
            exc4 = type(ex).__name__
        ctx.log.add("envfind", cid, e, qi, di, ci, exc4 or len(vals4))
        w.check_all(desc, [("?", v) for v in vals4], exc4, ref.for_findall(), True)
        ctx.state("sync", e, "envfind")
        return None
    if kind == "hot":
        n = int(op[5])
        dis = [d % len(w.docs) for d in op[3]] or [0]
        for k in range(n):
            dj = dis[k % len(dis)]
            r = w.refs[(qi, dj, ci)]
            got2: List[Any] = []
            exc2: Optional[str] = None
            try:
                for m in c.finditer(w.docs[dj], **w.kw(ci)):
                    got2.append((m.path, core.tj(m.obj)))
            except Exception as ex:  # noqa: BLE001
                exc2 = type(ex).__name__
            w.check_all(f"{desc} (use #{k + 1} of {n}, document {dj})", got2, exc2, r)
            ctx.steps += 1
        if n >= 100:
            ctx.count("probe.reuse_depth_ge_100")
        ctx.log.add("hot", cid, e, qi, n)
        ctx.state("sync", e, "hot", min(n, 100))
        return None
    if kind == "recompile":
        env = w.envs[e]
        try:
            c2 = env.compile(w.texts[qi])
        except Exception as ex:  # noqa: BLE001
            raise Violation(
                "C09.recompile",
                f"{desc}: compiling the same text again raised {type(ex).__name__}: {ex}",
                f"C09.recompile:raise:{type(ex).__name__}",
            ) from None
        if not (c2 == c) or str(c2) != w.compiled_str[(e, qi)]:
            raise Violation(
                "C09.recompile",
                f"{desc}: compiling the same text again gives {str(c2)!r}, not equal to the first compile {w.compiled_str[(e, qi)]!r}",
                "C09.recompile:neq",
            )
        got3: List[Any] = []
        exc3: Optional[str] = None
        try:
            for m in c2.finditer(w.docs[di], **w.kw(ci)):
                got3.append((m.path, core.tj(m.obj)))
        except Exception as ex:  # noqa: BLE001
            exc3 = type(ex).__name__
        try:
            w.check_all(desc + " [re-compiled query]", got3, exc3, ref)
        except Violation as v:
            raise Violation("C09.recompile", v.message, "C09.recompile:result") from None
        ctx.log.add("recompile", cid, e, qi)
        ctx.state("sync", e, "recompile")
        return None
    if kind == "iterate":
        try:
            it = iter(c.finditer(w.docs[di], **w.kw(ci)))
        except Exception as ex:  # noqa: BLE001
            w.check_all(desc, [], type(ex).__name__, ref)
            return None
        ctx.log.add("start", cid, e, qi, di, ci)
        return _Handle(it, ref, op[5], desc, (qi, di, ci), (e, qi))
    raise core.HarnessError(f"unknown op {kind}")


def _ended(h_desc: str, pos: int, exc: Optional[str], ref: _Ref, lenient: bool = False) -> None:
    """An evaluation ended (normally or by raising *exc*) after *pos* matches."""
    if exc != ref.exc or (not exc and pos != len(ref.ms)):
        how = f"raised {exc}" if exc else "ended"
        raise Violation(
            "C09.result",
            f"{h_desc}: {how} after {pos} matches but an isolated evaluation (fresh environment, caching off) gives {ref.show()}",
            f"C09.result:end:{exc}-vs-{ref.exc}",
        )


def _advance(w: World, ctx: Ctx, cid: int, h: _Handle) -> bool:
    try:
        m = next(h.it)
    except StopIteration:
        _ended(h.desc, h.pos, None, h.ref)
        ctx.log.add("done", cid, h.pos)
        return False
    except Exception as ex:  # noqa: BLE001
        _ended(h.desc, h.pos, type(ex).__name__, h.ref)
        ctx.log.add("raised", cid, type(ex).__name__)
        return False
    got = (m.path, core.tj(m.obj))
    if h.ref.exc and h.pos >= len(h.ref.ms):
        pass  # past the point where the isolated evaluation raised: only the error itself is compared
    elif h.pos >= len(h.ref.ms) or got != h.ref.ms[h.pos]:
        raise w.bad_match(h.desc, h.pos, got, h.ref)
    h.pos += 1
    w.retain(m, got, h.desc)
    ctx.log.add("next", cid, h.pos)
    return True


def _sync_store(plan: Dict[str, Any], ctx: Ctx) -> Optional[Store]:
    """A (non-suspending) store for the synchronous configurations when documents are wrapped."""
    if all(wr["mode"] == "none" for wr in plan["wraps"]) and not plan["faults"]["storeerr"]:
        return None
    store = Store(ctx.choose)
    for f in plan["faults"]["storeerr"]:
        store.failing[(f[0], f[1])] = f[2] if len(f) > 2 else "store"
        ctx.count("fault.storeerr.configured")
    return store


def _run_iter(spec: Dict[str, Any], ctx: Ctx) -> None:
    plan = spec["plan"]
    store = _sync_store(plan, ctx)
    w = World(plan, ctx, store)
    scripts = plan["clients"]
    pcs = [0] * len(scripts)
    handles: List[Optional[_Handle]] = [None] * len(scripts)
    order = list(range(len(scripts)))
    total = 0
    while total < 4000:
        runnable = [c for c in order if handles[c] is not None or pcs[c] < len(scripts[c])]
        if not runnable:
            break
        c = runnable[ctx.choose(len(runnable), "client")]
        order.remove(c)
        order.insert(0, c)
        ctx.switch(c)
        total += 1
        ctx.steps += 1
        h = handles[c]
        if h is not None:
            # mid-flight detection: another live handle on the same compiled filter query, different document/context
            for c2, h2 in enumerate(handles):
                if h2 is not None and c2 != c and h2.qkey == h.qkey and h2.key != h.key and h2.pos > 0 and "?" in w.texts[h.key[0]]:
                    ctx.nontrivial = True
                    ctx.count("probe.same_query_two_docs_midflight")
                    break
            alive = _advance(w, ctx, c, h)
            if alive and h.abandon_after is not None and h.pos > h.abandon_after:
                ctx.count("fault.abandon.fired")
                if "?" in w.texts[h.key[0]]:
                    ctx.count("probe.abandoned_mid_filter")
                ctx.log.add("abandon", c)
                ctx.state("iter", h.qkey[0], "abandon")
                close = getattr(h.it, "close", None)
                if h.pos % 2 and close is not None:
                    close()
                alive = False
            if not alive:
                handles[c] = None
            w.check_world(f"client {c} advancing {h.desc}", h.qkey)
            continue
        op = scripts[c][pcs[c]]
        pcs[c] += 1
        if op[0] == "iterate" and op[5] is not None:
            ctx.count("fault.abandon.configured")
        handles[c] = _sync_op(w, ctx, c, op)
        if op[0] == "iterate":
            ctx.state("iter", op[1], "iterate")
        w.check_world(f"client {c} op {op[0]}", _touched(op, w))
    w.check_world("the whole history", full=True)
    if store is not None:
        ctx.count("fault.storeerr.fired", store.errors_fired)
    # everything must have completed
    if any(h is not None for h in handles) or any(pcs[c] < len(scripts[c]) for c in range(len(scripts))):
        raise Violation("C09.completes", f"clients still running after {total} scheduler steps", "C09.completes:iter")


# --------------------------------------------------------------------------
# tasks configuration


def _run_tasks(spec: Dict[str, Any], ctx: Ctx) -> None:
    plan = spec["plan"]
    knobs = spec.get("knobs", {})
    store = Store(ctx.choose, p_get=float(knobs.get("p_get", 0.4)))
    for f in plan["faults"]["storeerr"]:
        store.failing[(f[0], f[1])] = f[2] if len(f) > 2 else "store"
        ctx.count("fault.storeerr.configured")
    w = World(plan, ctx, store)
    lenient = bool(plan["faults"]["storeerr"])
    scripts = plan["clients"]
    n_ops = sum(len(s) for s in scripts)
    work = sum(len(r.ms) + 2 for r in w.refs.values())
    loop = SimLoop(ctx.choose, max_steps=2000 + 400 * n_ops * (1 + len(plan["faults"]["cancels"])) + 40 * work)
    tasks: List[Any] = []
    in_eval = [False] * len(scripts)
    live: Dict[int, Tuple[Tuple[str, int], Tuple[int, int, int], int]] = {}
    cancels: Dict[int, List[int]] = {}
    for step, c in plan["faults"]["cancels"]:
        cancels.setdefault(int(step), []).append(int(c) % len(scripts))
        ctx.count("fault.cancel.configured")

    def on_step(lp: SimLoop) -> None:
        for c in cancels.get(lp.steps, ()):  # type: ignore[arg-type]
            if c < len(tasks) and not tasks[c].done() and in_eval[c]:
                tasks[c].cancel()
                ctx.count("fault.cancel.fired")
                ctx.count("probe.cancel_inside_evaluation")
                ctx.log.add("cancel", c)
                ctx.state("tasks", "-", "cancel")

    loop.on_step = on_step

    async def one(cid: int, op: List[Any]) -> None:
        kind = op[0]
        if kind in ("gc", "repurge"):
            _sync_op(w, ctx, cid, op)
            return
        if kind in ("recompile", "hot", "envfind"):
            ctx.switch(cid)
            ctx.count("probe.sync_use_between_suspended_tasks")
            _sync_op(w, ctx, cid, op)
            return
        if kind not in ("findall", "iterate"):
            return
        e, qi, di, ci = _idx(op, w)
        c = w.compiled[(e, qi)]
        ref = w.refs[(qi, di, ci)]
        desc = f"task {cid}: {kind}_async {w.texts[qi]!r} (env {e}) on document {di}, context {ci}"
        if w.has_cacheable[qi] and e != "off":
            ctx.count("probe.filter_with_cacheable_nodes_evaluated")
        ctx.switch(cid)
        ctx.log.add("start", cid, kind, e, qi, di, ci)
        ctx.state("tasks", e, kind)
        in_eval[cid] = True
        try:
            if kind == "findall":
                exc: Optional[str] = None
                vals: List[Any] = []
                try:
                    vals = [core.tj(v) for v in await c.findall_async(w.docs[di], **w.kw(ci))]
                except asyncio.CancelledError:
                    raise
                except Exception as ex:  # noqa: BLE001
                    exc = type(ex).__name__
                ctx.switch(cid)
                ctx.log.add("done", cid, exc or len(vals))
                if exc and ref.all_exc and exc != ref.all_exc:
                    # both raise; the reference is a *synchronous* isolated evaluation, and which of two lurking
                    # errors surfaces first in the async twin is C08's question, not this property's
                    ctx.count("probe.async_raises_other_class_than_sync_reference")
                    return
                w.check_all(desc, [("?", v) for v in vals], exc, ref.for_findall(), True)
                return
            pos = 0
            exc = None
            live[cid] = ((e, qi), (qi, di, ci), 0)
            try:
                it = await c.finditer_async(w.docs[di], **w.kw(ci))
                async for m in it:
                    got = (m.path, core.tj(m.obj))
                    ctx.switch(cid)
                    ctx.log.add("match", cid, pos)
                    if ref.exc and (lenient or pos >= len(ref.ms)):
                        pass  # past the point where the isolated evaluation raised (or the store is failing): only the error is compared
                    elif pos >= len(ref.ms) or got != ref.ms[pos]:
                        raise w.bad_match(desc, pos, got, ref)
                    pos += 1
                    live[cid] = ((e, qi), (qi, di, ci), pos)
                    for c2, (qk, key, p2) in live.items():
                        if c2 != cid and qk == (e, qi) and key != (qi, di, ci) and p2 > 0 and "?" in w.texts[qi]:
                            ctx.nontrivial = True
                            ctx.count("probe.same_query_two_docs_midflight")
                            break
                    if op[5] is not None and pos > op[5]:
                        ctx.count("fault.abandon.fired")
                        ctx.log.add("abandon", cid)
                        if pos % 2:
                            await it.aclose()
                        return
                    if ctx.choose(3, "pause"):
                        await asyncio.sleep(0.01)
            except (asyncio.CancelledError, Violation):
                raise
            except Exception as ex:  # noqa: BLE001
                exc = type(ex).__name__
            ctx.switch(cid)
            ctx.log.add("done", cid, exc or pos)
            if exc and ref.exc and exc != ref.exc:
                ctx.count("probe.async_raises_other_class_than_sync_reference")  # see above
                return
            _ended(desc, pos, exc, ref, lenient)
        finally:
            in_eval[cid] = False
            live.pop(cid, None)

    async def client(cid: int) -> None:
        for op in scripts[cid]:
            attempts = 0
            while True:
                attempts += 1
                try:
                    await one(cid, op)
                    break
                except asyncio.CancelledError:
                    if loop.drain or attempts > 6:
                        raise
                    ctx.log.add("reissue", cid)
            w.check_world(f"task {cid} op {op[0]}", _touched(op, w))

    async def main() -> None:
        for cid in range(len(scripts)):
            tasks.append(loop.create_task(client(cid), name=f"client-{cid}"))
        await asyncio.gather(*tasks)

    gc_was = gc.isenabled()
    gc.disable()
    store.concurrent = True
    try:
        try:
            run_sim(loop, main())
        except SimDeadlock:
            raise Violation("C09.completes", f"event loop idle with evaluations pending after {loop.steps} steps", "C09.completes:deadlock") from None
        except SimBudget:
            raise Violation("C09.completes", f"evaluations still running after {loop.steps} loop steps", "C09.completes:budget") from None
    finally:
        store.concurrent = False
        ctx.sim_time = loop.time()
        ctx.steps += loop.steps
        if gc_was:
            gc.enable()
    ctx.count("fault.delay.fired", store.suspended)
    ctx.count("fault.delay.configured", store.offered)
    ctx.count("fault.storeerr.fired", store.errors_fired)
    w.check_world("the concurrent phase", full=True)


# --------------------------------------------------------------------------
# threads configuration


def _run_threads(spec: Dict[str, Any], ctx: Ctx) -> None:
    plan = spec["plan"]
    knobs = spec.get("knobs", {})
    store = _sync_store(plan, ctx)
    w = World(plan, ctx, store)
    scripts = plan["clients"]
    trace_dir = os.path.dirname(os.path.abspath(jsonpath.__file__))
    errors: List[BaseException] = []

    def on_switch(a: int, b: int, where: str, other_file: str) -> None:
        ctx.switch(b)
        ctx.log.add("switch", a, b, where or "yield")
        ctx.count("fault.preempt.fired")
        if where:
            ctx.state("threads", "preempt", where)
            if where in ("lex.py", "parse.py", "stream.py", "env.py"):
                ctx.count("probe.preempted_inside_compile")
            if where == "filter.py":
                ctx.count("probe.preempted_inside_filter")
            if where == other_file and where not in ("exit", ""):
                ctx.nontrivial = True
                ctx.count("probe.preempt_same_file_two_threads")

    sched = ThreadSched(ctx.choose, trace_dir, on_switch=on_switch, p_quantum=float(knobs.get("p_quantum", 0.8)),
                        focus=knobs.get("focus") or None)

    def make(cid: int) -> Any:
        def body() -> None:
            try:
                for op in scripts[cid]:
                    h = _sync_op(w, ctx, cid, op)
                    if h is not None:
                        while _advance(w, ctx, cid, h):
                            sched.yield_point()
                    ctx.state("threads", op[1] if len(op) > 1 else "-", op[0])
                    w.check_world(f"thread {cid} op {op[0]}", _touched(op, w))
                    sched.yield_point()
            except BaseException as e:  # noqa: BLE001
                errors.append(e)

        return body

    for cid in range(len(scripts)):
        sched.add(f"t{cid}", make(cid))
    gc_was = gc.isenabled()
    gc.disable()
    try:
        sched.run()
    finally:
        if gc_was:
            gc.enable()
    ctx.steps += sched.steps
    ctx.count("fault.preempt.configured", sched.offers)
    ctx.count("thread_switches", sched.switches)
    ctx.count("traced_lines", sched.steps)
    ctx.count("lock_waits", sched.lock_waits)
    if sched.focus_cuts:
        ctx.count("probe.preemption_aimed_at_function_extension", sched.focus_cuts)
    for e in errors:
        if isinstance(e, Violation):
            raise e
    for e in errors:
        if isinstance(e, LockDeadlock):
            raise Violation("C09.completes", f"simulated threads deadlocked on a lock of the library: {e}", "C09.completes:lock-deadlock")
    for e in errors:
        raise core.HarnessError(f"exception in simulated thread: {type(e).__name__}: {e}")
    w.check_world("all threads finished", full=True)


def execute(spec: Dict[str, Any], ctx: Ctx) -> None:
    kind = spec["plan"]["kind"]
    if kind == "iter":
        _run_iter(spec, ctx)
    elif kind == "tasks":
        _run_tasks(spec, ctx)
    else:
        _run_threads(spec, ctx)


def shrink_plan(plan: Dict[str, Any]) -> Iterator[Dict[str, Any]]:
    for key in ("cancels", "storeerr"):
        for fl in ddmin_list(plan["faults"][key]):
            p = dict(plan)
            p["faults"] = dict(plan["faults"])
            p["faults"][key] = fl
            yield p
    for cl in ddmin_list(plan["clients"]):
        if cl:
            p = dict(plan)
            p["clients"] = cl
            yield p
    for ci, script in enumerate(plan["clients"]):
        for s in ddmin_list(script):
            p = dict(plan)
            p["clients"] = [list(x) for x in plan["clients"]]
            p["clients"][ci] = s
            yield p
    if len(plan["envs"]) > 1:
        for e in plan["envs"]:
            p = dict(plan)
            p["envs"] = [e]
            yield p
    if len(plan["queries"]) > 1:
        for i in range(len(plan["queries"])):
            p = dict(plan)
            p["queries"] = plan["queries"][:i] + plan["queries"][i + 1 :]
            yield p
    if len(plan["docs"]) > 1:
        for i in range(len(plan["docs"])):
            p = dict(plan)
            p["docs"] = plan["docs"][:i] + plan["docs"][i + 1 :]
            p["wraps"] = plan["wraps"][:i] + plan["wraps"][i + 1 :]
            yield p
    if len(plan["ctxs"]) > 1:
        for i in range(len(plan["ctxs"])):
            p = dict(plan)
            p["ctxs"] = plan["ctxs"][:i] + plan["ctxs"][i + 1 :]
            yield p
    for ci, script in enumerate(plan["clients"]):
        for si, op in enumerate(script):
            if op[0] == "hot" and op[5] > 2:
                p = dict(plan)
                p["clients"] = [[list(o) for o in s] for s in plan["clients"]]
                p["clients"][ci][si][5] = 2
                yield p
            if op[0] == "iterate" and op[5] is not None:
                p = dict(plan)
                p["clients"] = [[list(o) for o in s] for s in plan["clients"]]
                p["clients"][ci][si][5] = None
                yield p
    for di, d in enumerate(plan["docs"]):
        for s in simpler_json(d):
            if isinstance(s, (dict, list)):
                p = dict(plan)
                p["docs"] = list(plan["docs"])
                p["docs"][di] = s
                yield p


def repro(spec: Dict[str, Any], violation: Dict[str, str]) -> str:
    plan = spec["plan"]
    return (
        "import jsonpath\n"
        f"docs = {plan['docs']!r}\nq = {plan['queries'][0]!r}\n"
        "on = jsonpath.JSONPathEnvironment(filter_caching=True).compile(q)\n"
        "off = jsonpath.JSONPathEnvironment(filter_caching=False).compile(q)\n"
        "its = [iter(on.finditer(d)) for d in docs]  # advance alternately and compare with off.findall(d)\n"
    )
