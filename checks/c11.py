"""C11 - all query entry points agree with one another on every input.

System under simulation: the real package.  The simulator owns (a) the document
as a *single-use stream* (in-memory file stubs with a cursor, StringIO/BytesIO,
real files) next to the text and parsed forms, and (b) the history: calls
through every entry point whose lazy results (``finditer``, ``query``) stay
alive and are advanced one match at a time in a seeded interleaving with other
calls and other reads; lazy results may be abandoned mid-way.
"""
from __future__ import annotations

import atexit
import copy
import io
import json
import os
import shutil
import tempfile
from typing import Any
from typing import Dict
from typing import Iterator
from typing import List
from typing import Optional
from typing import Tuple

import jsonpath
from jpsim import core
from jpsim import gen_json
from jpsim import gen_query
from jpsim import tripwire
from jpsim.core import Ctx
from jpsim.core import Violation
from jpsim.fs import SimFile
from jpsim.runner import ddmin_list
from jpsim.runner import simpler_json

PROPERTY = "C11"
BUDGET = {
    "quick": {"history": 40000},
    "thorough": {"history": 900000},
}
FAULT_KINDS = ["abandon", "close_after_call", "short_read"]
TIME_UNIT = "logical steps (one entry-point call or one next() on a live lazy result); the component has no clock"
RULE = (
    "one run = 1-2 array/object documents, 1-4 queries (simple, or compound with 1-3 | and & operators) and a history of "
    "2-12 calls over {module, environment, compiled} x {findall, finditer, match, query} x 16 document forms (incl. white-space padded text, text streams in other encodings, short-read "
    "streams; a stream may be closed by the caller as soon as the call has returned); lazy results "
    "are advanced one match at a time in seeded interleaving with later calls, some abandoned mid-way. Non-trivial: the "
    "run used >= 2 document forms and >= 2 entry-point kinds on one (query, document) and some result was non-empty; "
    "distinct by event-log digest."
)
STATES_MEASURE = "distinct (entry level, method, document form, simple/compound, lazy-interleaved?) tuples (3 x 4 x 16 x 2 x 2 = 768 possible)"
REAL = ["jsonpath package: env/compiled/module entry points, CompoundJSONPath, _data.load_data, fluent_api.Query"]
STUB = ["SimFile single-use stream stubs (text and binary, non-seekable)", "iterator scheduler over live lazy results", "scratch real files"]
ASSUMPTIONS = [
    "reference for a simple query is compiled.findall(parsed value); for a compound query additionally the left-to-right fold of its operands' own findall results",
    "results are compared as typed JSON (text and stream forms produce fresh objects)",
    "where Python equality and JSON-value identity disagree about an intersection (1 / 1.0 / true on both sides) the fold is not judged; the entry points must still agree with one another",
    "a document stream is read before the entry point returns -- also for lazy results: the caller may close its file as soon as the call has returned (with open(...) as f: it = finditer(q, f)), as on the pinned tree",
    "no failing reads are injected: the statement gives them no meaning; fault kinds are abandonment of a lazy result, short reads "
    "(read(n) returning fewer than n units before EOF, as pipes and sockets do) and the caller closing its stream once the call has returned",
]
PROBES = ["foreign_environment_in_process", "large_document", "compound_x_stream_form", "lazy_alive_across_another_read", "match_on_empty", "query_values_view", "ctx_passed", "error_parity_case", "compound_operand_raises", "intersection_of_lookalike_values"]

LEVELS = ["module", "env", "compiled"]
METHODS = ["findall", "finditer", "match", "query"]
FORMS = ["value", "shared", "text_compact", "text_indent", "text_noascii", "text_ws", "stringio", "bytesio", "simfile_text", "simfile_bin", "realfile",
         "trickle_text", "trickle_bin", "textio_latin1", "textio_utf16", "realfile_latin1"]
STREAM_FORMS = FORMS[6:]

_SCRATCH_ENV = tripwire.register(jsonpath.JSONPathEnvironment())
tripwire.register(jsonpath.DEFAULT_ENV)  # a constant, stateless addition to the module-level environment
_TMP: List[str] = []


def _tmpdir() -> str:
    if not _TMP or _TMP[0].split("|")[0] != str(os.getpid()):
        d = tempfile.mkdtemp(prefix="jpsim-c11-", dir=os.environ.get("TMPDIR") or tempfile.gettempdir())
        _TMP[:] = [f"{os.getpid()}|{d}"]
        atexit.register(shutil.rmtree, d, True)
    return _TMP[0].split("|", 1)[1]


def generate(seed: int, config: str, tier: str) -> Dict[str, Any]:
    rng = core.stream(seed, "gen")
    frng = core.stream(seed, "fault")
    prof = gen_json.profile(rng)
    want_amp = rng.random() < 0.5
    if want_amp:
        # values that are equal for Python but not the same JSON value (1, 1.0, true): whether an intersection keeps
        # them is not fixed by the statement (the fold is not judged there) -- but every entry point must still give
        # the same answer, so half of the intersection runs keep them
        prof["lookalikes"] = rng.random() < 0.5
        prof["stringy"] = False
    docs = [gen_json.gen_document(rng, prof) for _ in range(rng.randint(1, 2))]
    if rng.random() < 0.25:
        # non-ASCII text (what an encoding mistake would garble)
        d0 = docs[0]
        odd = rng.choice(["é", "naïve", "ÿ", "Ünïcödé ☃" if not want_amp else "ñ"])
        if isinstance(d0, dict):
            d0[rng.choice(["a", "ä", "n"])] = odd
        else:
            d0.append(odd)
    ctxdoc = {"a": rng.choice([1, 2, "a"]), "b": [2, 3], "x": {"y": 10}} if rng.random() < 0.4 else None
    opts = gen_query.default_opts(rng)
    if ctxdoc is not None:
        opts["p_ctx"] = 0.3
        opts["p_ext"] = max(opts["p_ext"], 0.15)
    else:
        opts["p_ctx"] = 0.0
    if rng.random() < 0.25:
        # some filters die at evaluation time (jpsim/tripwire.py): error parity between entry points and forms
        opts["p_trip"] = 0.25
        opts["p_filter"] = max(opts["p_filter"], 0.5)
    foreign_step = rng.random() < 0.2
    if foreign_step:
        opts["p_str_lit"] = 0.3
        opts["p_filter"] = max(opts["p_filter"], 0.5)
    queries: List[Dict[str, Any]] = []
    for _ in range(rng.randint(1, 4)):
        d = rng.choice(docs)
        n_parts = 1 if rng.random() < 0.45 else rng.randint(2, 4)
        parts = gen_query.gen_queries(rng, _SCRATCH_ENV, d, n_parts, ctx_doc=ctxdoc, opts=opts, p_compound=0.0)
        ops = [rng.choice("|&" if want_amp else "|") for _ in range(n_parts - 1)]
        q = {"parts": parts, "ops": ops}
        if not gen_query.compiles(_SCRATCH_ENV, qtext(q)):
            # every operand compiles alone but the joined text does not (e.g. a quoted name ending in a backslash)
            q = {"parts": parts[:1], "ops": []}
        queries.append(q)
    calls: List[Dict[str, Any]] = []
    for _ in range(rng.randint(2, 20 if tier == "thorough" else 12)):
        method = rng.choice(METHODS)
        calls.append(
            {
                "level": rng.choice(LEVELS),
                "method": method,
                "q": rng.randrange(len(queries)),
                "d": rng.randrange(len(docs)),
                "form": rng.choice(FORMS) if rng.random() < 0.8 else "value",
                "view": rng.choice(["iter", "values", "items", "locations"]),
                "abandon_after": frng.randrange(4) if (method in ("finditer", "query") and frng.random() < 0.15) else None,
                "ctx_kw": rng.random() < 0.5,
                "close_after": frng.random() < 0.3,
            }
        )
    if foreign_step:
        # somewhere in the history the application builds (and uses) a differently configured environment
        calls.insert(rng.randrange(len(calls) + 1), {"foreign_env": True, "q": rng.randrange(len(queries)), "d": 0})
    # buggify-style size knob: now and then a document is larger than any plausible read chunk
    pad = [rng.randrange(len(docs)), rng.choice([4095, 4097, 8193, 65537, 131073])] if rng.random() < 0.08 else None
    plan = {"docs": docs, "ctx": ctxdoc, "queries": queries, "calls": calls, "pad": pad}
    return {"property": PROPERTY, "config": config, "seed": seed, "knobs": {"p_sched": rng.choice([0.15, 0.35, 0.6])}, "plan": plan}


def qtext(q: Dict[str, Any]) -> str:
    out = q["parts"][0]
    for op, p in zip(q["ops"], q["parts"][1:]):
        out += f" {op} {p}"
    return out


def _doc_form(form: str, doc: Any, ctx: Ctx, opened: List[Any]) -> Any:
    if form == "value":
        return copy.deepcopy(doc)
    if form == "shared":
        # the caller's one parsed document, handed to call after call (evaluation does not modify it)
        return doc
    if form == "text_compact":
        return json.dumps(doc, separators=(",", ":"))
    if form == "text_indent":
        return json.dumps(doc, indent=2)
    if form == "text_noascii":
        return json.dumps(doc, ensure_ascii=False)
    if form == "text_ws":
        # JSON text may be surrounded by (and contain) insignificant white space
        return [" ", "\n", "\t \r\n", "  "][ctx.seed % 4] + json.dumps(doc, indent=1) + ["\n", " ", "\r\n"][ctx.seed % 3]
    if form in ("textio_latin1", "textio_utf16", "realfile_latin1"):
        # a text stream knows its own encoding; the bytes underneath are not UTF-8
        raw = json.dumps(doc, ensure_ascii=False)
        enc = "utf-16" if form == "textio_utf16" else "latin-1"
        try:
            data = raw.encode(enc)
        except UnicodeEncodeError:
            enc = "utf-16"
            data = raw.encode(enc)
        if form == "realfile_latin1":
            path = os.path.join(_tmpdir(), f"doc{len(opened)}.json")
            with open(path, "wb") as f:
                f.write(data)
            fh = open(path, "r", encoding=enc)  # noqa: SIM115
            opened.append(fh)
            return fh
        return io.TextIOWrapper(io.BytesIO(data), encoding=enc)
    text = json.dumps(doc)
    if form == "stringio":
        return io.StringIO(text)
    if form == "bytesio":
        return io.BytesIO(text.encode())
    if form == "simfile_text":
        return SimFile(text.encode(), text=True, name="doc.json")
    if form == "simfile_bin":
        return SimFile(text.encode(), text=False, name="doc.json", mode="rb")
    if form in ("trickle_text", "trickle_bin"):
        # a pipe/socket-like stream: read(n) hands out at most a few units per call (short reads);
        # raw UTF-8 so that a multi-byte character can straddle two reads
        raw8 = json.dumps(doc, ensure_ascii=False).encode("utf-8")
        return SimFile(raw8, text=form == "trickle_text", name="pipe", mode="r" if form == "trickle_text" else "rb",
                       max_read=1 + ctx.seed % 17)
    if form == "realfile":
        path = os.path.join(_tmpdir(), f"doc{len(opened)}.json")
        with open(path, "w", encoding="utf-8") as f:
            f.write(text)
        fh = open(path, "rb" if ctx.seed % 2 else "r", encoding=None if ctx.seed % 2 else "utf-8")  # noqa: SIM115
        opened.append(fh)
        return fh
    raise core.HarnessError(form)


class _Lazy:
    __slots__ = ("it", "view", "want", "pos", "abandon_after", "desc", "clause", "cid", "started_step")

    def __init__(self, it: Any, view: str, want: Any, abandon_after: Optional[int], desc: str, clause: str, cid: int, step: int):
        self.it = it
        self.view = view
        self.want = want
        self.pos = 0
        self.abandon_after = abandon_after
        self.desc = desc
        self.clause = clause
        self.cid = cid
        self.started_step = step


class _Ref:
    """Reference outcome of one (query, document): the matches produced, then an optional exception."""

    __slots__ = ("ms", "exc", "all_exc")

    def __init__(self, ms: List[Any], exc: Optional[str]) -> None:
        self.ms = ms
        self.exc = exc  # what find-iter raises after producing ms, if anything
        # what find-all raises, if anything: a compound query evaluates its operands in a different
        # order in find-all and find-iter, so with two lurking errors the classes may differ
        self.all_exc = exc

    def vals(self) -> Any:
        return ("exc", self.all_exc) if self.all_exc else [v for _, v in self.ms]

    def show(self) -> Any:
        out: Any = [[p, _untj(v)] for p, v in self.ms]
        return out + [f"then raises {self.exc}"] if self.exc else out


def _ref(compiled: Any, doc: Any, fctx: Any, text: str) -> "_Ref":
    """Reference: compiled.findall on the parsed value; paths from compiled.finditer.

    The two must already agree here (find-all is the list of values of find-iter)."""
    try:
        vals: Any = [core.tj(v) for v in compiled.findall(copy.deepcopy(doc), filter_context=fctx)]
    except Exception as e:  # noqa: BLE001
        vals = ("exc", type(e).__name__)
    ms: List[Any] = []
    exc: Optional[str] = None
    try:
        for m in compiled.finditer(copy.deepcopy(doc), filter_context=fctx):
            ms.append((m.path, core.tj(m.obj)))
    except Exception as e:  # noqa: BLE001
        exc = type(e).__name__
    r = _Ref(ms, exc)
    if exc is not None and isinstance(vals, tuple):
        r.all_exc = vals[1]
    if r.vals() != vals:
        raise Violation(
            "C11.project",
            f"compiled.findall({text!r}) on {core.short(doc, 200)} gives {core.short(_untj_list(vals), 300)} but "
            f"compiled.finditer gives {core.short(r.show(), 300)}",
            "C11.project:findall-vs-finditer",
        )
    return r


def _fold(env: Any, q: Dict[str, Any], doc: Any, fctx: Any) -> Any:
    """Left-to-right fold of the operands' own findall results (typed JSON)."""
    try:
        acc = list(env.compile(q["parts"][0]).findall(copy.deepcopy(doc), filter_context=fctx))
        loose = list(acc)  # the same fold with Python's == (1 == 1.0 == True) instead of JSON-value identity
        for op, part in zip(q["ops"], q["parts"][1:]):
            r = list(env.compile(part).findall(copy.deepcopy(doc), filter_context=fctx))
            if op == "|":
                acc = acc + r
                loose = loose + r
            else:
                rt = [core.tj(y) for y in r]
                acc = [x for x in acc if core.tj(x) in rt]
                loose = [x for x in loose if x in r]
        strict_l = [core.tj(v) for v in acc]
        if strict_l != [core.tj(v) for v in loose]:
            # "values also produced by the right one": same JSON value, or equal for Python?  Not judged.
            return ("ambiguous", "equality")
        return strict_l
    except Exception as e:  # noqa: BLE001
        return ("exc", type(e).__name__)


def _clause(call: Dict[str, Any], compound: bool) -> str:
    form = call["form"]
    if form.startswith("text"):
        return "C11.text"
    if form not in ("value", "shared"):
        return "C11.file"
    if call["level"] != "compiled":
        return "C11.levels"
    return "C11.project"


def execute(spec: Dict[str, Any], ctx: Ctx) -> None:
    plan = spec["plan"]
    docs = copy.deepcopy(plan["docs"])
    if plan.get("pad"):
        di, n = plan["pad"]
        d = docs[di % len(docs)]
        # starts with "b" so that none of the generator's regular expressions (".*b.*", ...) backtracks
        # quadratically over it: time spent inside the regex engine is nobody's property here
        pad = "b" + "p" * (n - 1)
        if isinstance(d, dict):
            d["zz_pad"] = pad
        else:
            d.append(pad)
        ctx.count("probe.large_document")
    fctx = plan["ctx"]
    env = tripwire.register(jsonpath.JSONPathEnvironment())
    texts = [qtext(q) for q in plan["queries"]]
    compiled = [env.compile(t) for t in texts]
    # references, computed in isolation before the history
    refs: Dict[Tuple[int, int], Any] = {}
    for qi, q in enumerate(plan["queries"]):
        for di, d in enumerate(docs):
            r = _ref(compiled[qi], d, fctx, texts[qi])
            refs[(qi, di)] = r
            if q["ops"]:
                fold = _fold(env, q, d, fctx)
                vals = r.vals()
                if isinstance(fold, tuple) and fold[0] == "ambiguous":
                    ctx.count("probe.intersection_of_lookalike_values")
                elif isinstance(fold, tuple) and "&" not in q["ops"] and not isinstance(vals, tuple):
                    # a union evaluates every operand: if one of them raises alone, so must the union
                    raise Violation(
                        "C11.union",
                        f"compound query {texts[qi]!r} on {core.short(d, 200)} gives {core.short(_untj_list(vals), 300)} although one of "
                        f"its operands, evaluated alone, raises {fold[1]}",
                        "C11.union:swallowed-error",
                    )
                elif isinstance(fold, tuple):
                    # an operand raises when evaluated alone: the compound may raise too (any of its operands'
                    # classes) or never get to evaluate that operand at all (nothing on the left to restrict)
                    ctx.count("probe.compound_operand_raises")
                elif fold != vals:
                    which = "C11.intersect" if "&" in q["ops"] else "C11.union"
                    raise Violation(
                        which,
                        f"compound query {texts[qi]!r} on {core.short(d, 200)} gives {core.short(_untj_list(vals), 300)} but the "
                        f"left-to-right fold of its operands' own results is {core.short(_untj_list(fold), 300)}",
                        f"{which}:fold",
                    )
            if r.exc:
                ctx.count("probe.error_parity_case")

    opened: List[Any] = []
    live: List[_Lazy] = []
    used: Dict[Tuple[int, int], Dict[str, Dict[str, None]]] = {}
    next_call = 0
    step = 0
    cid = 0
    nonempty = False

    def fail(clause: str, desc: str, got: Any, want: Any, sig: str) -> None:
        raise Violation(
            clause,
            f"{desc}: got {core.short(got, 300)} but the compiled query on the parsed value gives {core.short(want, 300)}",
            sig,
        )

    def advance(lz: _Lazy) -> bool:
        """One next() on a live lazy result. Returns False when it is finished."""
        want: _Ref = lz.want
        try:
            item = next(lz.it)
        except StopIteration:
            if want.exc or lz.pos != len(want.ms):
                fail(lz.clause, lz.desc + f" ended after {lz.pos} matches", f"{lz.pos} matches", want.show(), f"{lz.clause}:short")
            ctx.log.add("done", lz.cid, lz.pos)
            return False
        except Exception as e:  # noqa: BLE001
            # same class as the reference; how many matches a lazy result hands out first is not compared
            if type(e).__name__ != want.exc:
                fail(lz.clause, lz.desc + f" raised {type(e).__name__} at match {lz.pos}", f"raises {type(e).__name__}", want.show(), f"{lz.clause}:exc")
            ctx.log.add("raised", lz.cid, type(e).__name__)
            return False
        if lz.view == "iter":
            obs = (item.path, core.tj(item.obj))
        elif lz.view == "values":
            obs = core.tj(item)
        elif lz.view == "locations":
            obs = item
        else:
            obs = (item[0], core.tj(item[1]))
        if lz.pos >= len(want.ms) and want.exc:
            lz.pos += 1  # past the point where the reference raised: only the error itself is compared
            return True
        if lz.pos >= len(want.ms):
            fail(lz.clause, lz.desc + f" produced an extra match #{lz.pos} {core.short(obs)}", _show(obs), want.show(), f"{lz.clause}:extra")
        w = want.ms[lz.pos]
        exp = w if lz.view in ("iter", "items") else (w[1] if lz.view == "values" else w[0])
        if obs != exp:
            fail(lz.clause, lz.desc + f" match #{lz.pos}", _show(obs), _show(exp), f"{lz.clause}:{lz.view}")
        lz.pos += 1
        ctx.log.add("next", lz.cid, lz.pos)
        if lz.abandon_after is not None and lz.pos > lz.abandon_after:
            ctx.count("fault.abandon.fired")
            ctx.log.add("abandon", lz.cid)
            close = getattr(lz.it, "close", None)
            if close is not None and lz.pos % 2:
                close()
            return False
        return True

    calls = plan["calls"]
    while next_call < len(calls) or live:
        # runnable: live lazies (most recently used first), then "issue the next call"
        n = len(live) + (1 if next_call < len(calls) else 0)
        pick = ctx.choose(n, "step")
        step += 1
        ctx.steps += 1
        if pick < len(live):
            lz = live.pop(pick)
            ctx.switch(lz.cid)
            if advance(lz):
                live.insert(0, lz)
            continue
        call = calls[next_call]
        next_call += 1
        cid += 1
        ctx.switch(-cid)
        if call.get("foreign_env"):
            # another environment with other options and another function table appears in the process
            fenv = tripwire.foreign_environment(False)
            try:
                fenv.findall(texts[call["q"] % len(texts)], copy.deepcopy(docs[call["d"] % len(docs)]))
            except Exception:  # noqa: BLE001
                pass
            ctx.count("probe.foreign_environment_in_process")
            ctx.log.add("foreign-env", cid)
            continue
        qi = call["q"] % len(texts)
        di = call["d"] % len(docs)
        want = refs[(qi, di)]
        compound = bool(plan["queries"][qi]["ops"])
        clause = _clause(call, compound)
        desc = f"{call['level']}.{call['method']}({texts[qi]!r}, <{call['form']}>)"
        if live:
            ctx.count("probe.lazy_alive_across_another_read")
        if compound and call["form"] in STREAM_FORMS:
            ctx.count("probe.compound_x_stream_form")
        ctx.state(call["level"], call["method"], call["form"], "compound" if compound else "simple", "interleaved" if live else "alone")
        u = used.setdefault((qi, di), {"forms": {}, "kinds": {}})
        u["forms"][call["form"]] = None
        u["kinds"][call["level"] + "." + call["method"]] = None
        data = _doc_form(call["form"], docs[di], ctx, opened)
        kw: Dict[str, Any] = {}
        args: List[Any] = []
        if fctx is not None:
            ctx.count("probe.ctx_passed")
            kw["filter_context"] = fctx
        ctx.log.add("call", cid, desc, "live", len(live))
        try:
            if call["level"] == "module":
                # the module-level functions are bound to the default environment
                res = getattr(jsonpath, call["method"])(texts[qi], data, *args, **kw)
            elif call["level"] == "env":
                res = getattr(env, call["method"])(texts[qi], data, *args, **kw)
            else:
                res = getattr(compiled[qi], call["method"])(data, *args, **kw)
            it: Any = None
            view = "iter"
            if call["method"] in ("finditer", "query"):
                # opening the view belongs to the call: an eager implementation may raise here
                if call["method"] == "query":
                    view = call["view"]
                    if view == "values":
                        it = iter(res.values())
                        ctx.count("probe.query_values_view")
                    elif view == "items":
                        it = iter(res.items())
                    elif view == "locations":
                        it = iter(res.locations())
                    else:
                        it = iter(res)
                else:
                    it = iter(res)
        except Exception as e:  # noqa: BLE001
            name = type(e).__name__
            # an entry point raises iff the reference raises, with the class find-all or find-iter gives;
            # whether a lazy one raises at call time or at the failing match is its own business
            ok = name in (want.all_exc, want.exc)
            if ok and call["method"] == "match" and want.ms:
                ok = True  # an eager match() may meet the error behind the first match
            if not ok:
                fail(clause, desc + f" raised {name}", f"raises {name}", want.show(), f"{clause}:{call['method']}:exc:{name}")
            ctx.log.add("raised", cid, name)
            continue
        if call["form"] in ("trickle_text", "trickle_bin"):
            ctx.count("fault.short_read.configured")
            if getattr(data, "reads", 0):
                ctx.count("fault.short_read.fired")
        if call.get("close_after") and call["form"] in STREAM_FORMS:
            # the entry point has returned: the caller is free to close its file (`with open(...)`)
            ctx.count("fault.close_after_call.configured")
            try:
                data.close()
                ctx.count("fault.close_after_call.fired")
                ctx.log.add("close", cid)
            except Exception:  # noqa: BLE001
                pass
        if call["method"] == "findall":
            got_l = [core.tj(v) for v in res]
            wv = want.vals()
            if got_l != wv:
                fail(clause, desc, _untj_list(got_l), _untj_list(wv), f"{clause}:findall")
            nonempty = nonempty or bool(got_l)
        elif call["method"] == "match":
            got_m = None if res is None else (res.path, core.tj(res.obj))
            if not want.ms and want.exc:
                fail(clause, desc + " returned instead of raising", _show(got_m), want.show(), f"{clause}:match:noexc")
            exp_m = want.ms[0] if want.ms else None
            if not want.ms:
                ctx.count("probe.match_on_empty")
            if got_m != exp_m:
                fail(clause, desc, _show(got_m), _show(exp_m), f"{clause}:match")
            nonempty = nonempty or bool(want.ms)
        else:
            if call["abandon_after"] is not None:
                ctx.count("fault.abandon.configured")
            live.insert(0, _Lazy(it, view, want, call["abandon_after"], desc, clause, cid, step))
            nonempty = nonempty or bool(want.ms)
    for fh in opened:
        try:
            fh.close()
        except Exception:  # noqa: BLE001
            pass
    ctx.nontrivial = nonempty and any(len(u["forms"]) >= 2 and len(u["kinds"]) >= 2 for u in used.values())


def _untj_list(v: Any) -> Any:
    if isinstance(v, tuple) and v and v[0] == "exc":
        return f"raises {v[1]}"
    return [_untj(x) for x in v]


def _untj(t: Any) -> Any:
    if not isinstance(t, tuple) or not t:
        return t
    k = t[0]
    if k == "n":
        return None
    if k in ("b", "i", "s"):
        return t[1]
    if k == "f":
        return float(t[1])
    if k == "o":
        return {a: _untj(b) for a, b in t[1]}
    if k == "l":
        return [_untj(x) for x in t[1]]
    return repr(t)


def _show(v: Any) -> Any:
    if isinstance(v, tuple) and len(v) == 2 and v[0] == "exc":
        return f"raises {v[1]}"
    if isinstance(v, list):
        return [_show(x) for x in v]
    if isinstance(v, tuple) and len(v) == 2 and isinstance(v[0], str) and isinstance(v[1], tuple):
        return [v[0], _untj(v[1])]
    if isinstance(v, tuple):
        return _untj(v)
    return v


def shrink_plan(plan: Dict[str, Any]) -> Iterator[Dict[str, Any]]:
    for c in ddmin_list(plan["calls"]):
        if c:
            p = dict(plan)
            p["calls"] = c
            yield p
    for i, c in enumerate(plan["calls"]):
        if c.get("foreign_env"):
            continue
        for key, simple in (("form", "value"), ("level", "compiled"), ("method", "findall"), ("abandon_after", None), ("close_after", False)):
            if c.get(key, simple) != simple:
                p = dict(plan)
                p["calls"] = [dict(x) for x in plan["calls"]]
                p["calls"][i][key] = simple
                yield p
    if len(plan["queries"]) > 1:
        for i in range(len(plan["queries"])):
            p = dict(plan)
            p["queries"] = plan["queries"][:i] + plan["queries"][i + 1 :]
            yield p
    for qi, q in enumerate(plan["queries"]):
        if q["ops"]:
            for k in range(len(q["parts"])):
                parts = q["parts"][:k] + q["parts"][k + 1 :]
                j = max(k - 1, 0)
                ops = q["ops"][:j] + q["ops"][j + 1 :]
                p = dict(plan)
                p["queries"] = list(plan["queries"])
                p["queries"][qi] = {"parts": parts, "ops": ops}
                yield p
        for k, part in enumerate(q["parts"]):
            for simple in ("$", "$.*", "$.a"):
                if part != simple:
                    p = dict(plan)
                    p["queries"] = [dict(x) for x in plan["queries"]]
                    p["queries"][qi] = {"parts": q["parts"][:k] + [simple] + q["parts"][k + 1 :], "ops": q["ops"]}
                    yield p
    if len(plan["docs"]) > 1:
        for i in range(len(plan["docs"])):
            p = dict(plan)
            p["docs"] = plan["docs"][:i] + plan["docs"][i + 1 :]
            yield p
    for di, d in enumerate(plan["docs"]):
        for s in simpler_json(d):
            if isinstance(s, (dict, list)):
                p = dict(plan)
                p["docs"] = list(plan["docs"])
                p["docs"][di] = s
                yield p
    if plan["ctx"] is not None:
        p = dict(plan)
        p["ctx"] = None
        yield p
    if plan.get("pad"):
        p = dict(plan)
        p["pad"] = None
        yield p


def repro(spec: Dict[str, Any], violation: Dict[str, str]) -> str:
    plan = spec["plan"]
    q = qtext(plan["queries"][0])
    return (
        "import io, json, jsonpath\n"
        f"doc = {plan['docs'][0]!r}\nq = {q!r}\n"
        "print(jsonpath.findall(q, doc)); print(jsonpath.findall(q, json.dumps(doc))); "
        "print(jsonpath.findall(q, io.StringIO(json.dumps(doc))))\n"
    )
