"""C15 - a patch is a faithful, reusable value.

System under simulation: the real ``jsonpath.patch`` (and pointer) code.  The
simulator owns the *history*: several application-side clients build patch
objects in every form, apply them (to documents that make some applications
fail half-way), keep the results, mutate results they were handed, print the
patch, and apply again -- in a seeded interleaving.  After every step the patch
objects, the caller's operation lists and all retained results are compared
with snapshots and with a freshly built patch applied in isolation.
"""
from __future__ import annotations

import copy
import io
import json
from typing import Any
from typing import Dict
from typing import Iterator
from typing import List
from typing import Optional
from typing import Tuple

from jsonpath import JSONPatch
from jsonpath import JSONPointer
from jpsim import core
from jpsim import gen_json
from jpsim import gen_patch
from jpsim.core import Ctx
from jpsim.core import Violation
from jpsim.fs import SimFile
from jpsim.runner import ddmin_list
from jpsim.runner import simpler_json

PROPERTY = "C15"
BUDGET = {
    "quick": {"history": 40000, "faultfree": 20000},
    "thorough": {"history": 700000, "faultfree": 300000},
}
FAULT_KINDS = ["failop", "callermut", "foreign_doc"]
TIME_UNIT = "logical steps (one build / apply / mutate / print step of one client); the component has no clock"
RULE = (
    "one run = 1-3 generated operation lists (ops chosen against the evolving document, container values that later ops "
    "write into), 2-4 documents (incl. variants that make an application fail half-way) and 1-3 clients whose scripts of "
    "build/apply/mutate/print/addne/addap steps are interleaved by the seeded scheduler. 'faultfree' runs inject no "
    "failing op, no foreign document and no caller mutation. Non-trivial: some patch object was applied at least twice "
    "with a caller mutation or failed application in between and holds a container-valued op; distinct by event-log digest."
)
STATES_MEASURE = "distinct (form, op-name multiset, reuse depth, outcome class, what was mutated) tuples"
REAL = ["jsonpath.patch (JSONPatch, all Op classes, apply)", "jsonpath.pointer.JSONPointer", "jsonpath._data.load_data"]
STUB = ["history scheduler over application-side clients", "SimFile stream for the file form", "snapshot/alias oracle"]
ASSUMPTIONS = [
    "reference effect of (operation list, document) is a freshly built patch (list-of-dicts form) applied once to a private deep copy",
    "only exception classes are compared, not messages",
    "operation lists are valid by construction; keys are ASCII without integer look-alikes or pointer-extension prefixes",
    "addne/addap clauses use a pointer walk in the harness to decide 'parent is an object that has the member' / 'index beyond the end'",
]
PROBES = [
    "later_op_writes_inside_earlier_value",
    "failop_at_k_gt_0",
    "addap_from_document_form",
    "root_replaced",
    "reuse_depth_ge_5",
    "apply_failed_then_reapplied",
    "reapplied_to_own_result",
    "document_as_text",
    "foreign_patch_in_process",
]
FORMS = ["dicts", "text", "file", "builder_str", "builder_ptr", "asdicts", "stringio", "tuple", "generator", "bytesio"]
ALL_KINDS = ["add", "remove", "replace", "move", "copy", "test", "addne", "addap"]


def generate(seed: int, config: str, tier: str) -> Dict[str, Any]:
    rng = core.stream(seed, "gen")
    frng = core.stream(seed, "fault")
    prof = gen_patch.patch_profile(rng)
    faulty = config != "faultfree"
    base = gen_patch.gen_pdoc(rng, prof)
    docs = [base]
    n_docs = rng.randint(1, 3)
    for _ in range(n_docs):
        r = rng.random()
        if faulty and r < 0.4:
            # foreign document: a sub-tree removed, so that some op fails half-way
            d = copy.deepcopy(base)
            locs = [l for l, _ in gen_json.walk(d) if l]
            if locs:
                l = frng.choice(locs)
                node = d
                for k in l[:-1]:
                    node = node[k]
                del node[l[-1]]
            docs.append(d)
        elif faulty and r < 0.55:
            docs.append(frng.choice([{}, [], {"a": 1}]))
        else:
            docs.append(copy.deepcopy(base) if rng.random() < 0.5 else gen_patch.gen_pdoc(rng, prof))
    kinds = [k for k in ALL_KINDS if rng.random() < 0.8] or ["add"]
    if rng.random() < 0.5 and "add" not in kinds:
        kinds.append("add")
    # now and then another patch object with *other options* (URI decoding on, escape decoding off) is built from
    # the same operation list in the same process; it must not change what the default-option patches do
    foreign = rng.choice(["early", "late"]) if rng.random() < 0.15 else None
    if foreign:
        prof["keys"] = list(prof["keys"]) + [k for k in ("%41", "a%20b", "50%25") if k not in prof["keys"]]
    orng = core.stream(seed, "ops")
    ofrng = core.stream(seed, "opsfault")

    def _gen_oplists() -> Any:
        ol = []
        fa: List[Optional[int]] = []
        for _ in range(orng.randint(1, 3)):
            ops = gen_patch.gen_oplist(orng, prof, JSONPatch, base, orng.randint(1, 12 if tier == "thorough" else 8), kinds)
            if not ops:
                ops = [{"op": "add", "path": "/a", "value": []}]
            k = None
            if faulty and ofrng.random() < 0.25:
                ops, k = gen_patch.make_failing(ofrng, ops)
            ol.append(ops)
            fa.append(k)
        return ol, fa

    # choosing plausible operations applies candidate ops with the engine; when the run is about what a patch with
    # other options leaves behind in the process, that must not happen in the process that executes the run
    oplists, failing_at = core.in_child(_gen_oplists) if foreign else _gen_oplists()
    clients = []
    for _ in range(rng.randint(1, 3)):
        script: List[List[Any]] = []
        for _ in range(rng.randint(2, 24 if tier == "thorough" else 14)):
            r = rng.random()
            L = rng.randrange(len(oplists))
            form = rng.choice(FORMS)
            if r < 0.15:
                script.append(["build", L, form])
            elif r < 0.65:
                step = ["apply", L, form, rng.randrange(len(docs)) if rng.random() < 0.6 else 0]
                if rng.random() < 0.2:
                    step.append(rng.choice(["text", "stringio"]))  # the document as JSON text / a stream
                script.append(step)
            elif r < 0.72:
                # apply again to a document the client was handed back earlier (the same object, patched in place)
                script.append(["reapply", L, form, rng.randrange(8)])
            elif r < 0.82 and faulty:
                script.append(["mut", frng.randrange(8), frng.randrange(64)])
            elif r < 0.9:
                script.append(["asdicts", L, form])
            else:
                script.append(_gen_addx(rng, prof, docs))
        clients.append(script)
    if foreign == "late":
        ci = rng.randrange(len(clients))
        clients[ci].insert(rng.randrange(len(clients[ci]) + 1), ["foreign", rng.randrange(len(oplists))])
    plan = {"oplists": oplists, "failing_at": failing_at, "docs": docs, "clients": clients, "foreign": foreign}
    return {"property": PROPERTY, "config": config, "seed": seed, "knobs": {"p_sched": rng.choice([0.2, 0.4, 0.6])}, "plan": plan}


def _gen_addx(rng: Any, prof: Dict[str, Any], docs: List[Any]) -> List[Any]:
    D = rng.randrange(len(docs))
    doc = docs[D]
    kind = rng.choice(["addne", "addap"])
    locs = gen_json.walk(doc)
    conts = [(l, v) for l, v in locs if isinstance(v, (dict, list))]
    r = rng.random()
    loc: Tuple[Any, ...] = ()
    if conts and r < 0.85:
        l, v = rng.choice(conts)
        if isinstance(v, list):
            loc = l + (rng.choice(["-", 0, max(len(v) - 1, 0), len(v), len(v) + 2, len(v) + 1]),)
        else:
            names = list(v.keys()) + prof["keys"][:3]
            if v and rng.random() < 0.25:
                # a new member whose name is '~' or '#' + the name of an existing sibling
                names = [rng.choice(["~", "#"]) + str(rng.choice(list(v.keys())))]
            loc = l + (rng.choice(names),)
    elif r < 0.93 and locs:
        # through a scalar: both add and the variant must fail alike
        l, v = rng.choice(locs)
        loc = l + (rng.choice(["a", 0]),)
    value = gen_patch.container_value(rng, prof) if rng.random() < 0.4 else gen_json.gen_scalar(rng, prof)
    return ["addx", kind, D, gen_patch.enc(loc), value]


# --------------------------------------------------------------------------


def _outcome(fn: Any) -> Tuple[str, Any]:
    try:
        return ("ok", core.tj(fn()))
    except Exception as e:  # noqa: BLE001
        return ("exc", type(e).__name__)


class _P:
    __slots__ = ("obj", "snap", "L", "form", "applied", "since_fault", "pid")

    def __init__(self, obj: Any, snap: Any, L: int, form: str, pid: int) -> None:
        self.obj = obj
        self.snap = snap
        self.L = L
        self.form = form
        self.applied = 0
        self.since_fault = False
        self.pid = pid


def _containers(v: Any, out: List[Any], depth: int = 0) -> None:
    if isinstance(v, dict):
        out.append(v)
        for x in v.values():
            _containers(x, out, depth + 1)
    elif isinstance(v, list):
        out.append(v)
        for x in v:
            _containers(x, out, depth + 1)


def execute(spec: Dict[str, Any], ctx: Ctx) -> None:
    plan = spec["plan"]
    oplists: List[List[Dict[str, Any]]] = plan["oplists"]
    docs: List[Any] = plan["docs"]
    # the caller's own lists (mutable, aliased into 'dicts' and builder forms)
    caller = [copy.deepcopy(ops) for ops in oplists]
    caller_snap = [core.tj(ops) for ops in caller]
    has_container_op = [any(isinstance(o.get("value"), (dict, list)) for o in ops) for ops in oplists]

    # reference, computed in isolation before the run
    def _refs() -> Dict[Tuple[int, int], Tuple[str, Any]]:
        out: Dict[Tuple[int, int], Tuple[str, Any]] = {}
        for L, ops in enumerate(oplists):
            for D, doc in enumerate(docs):
                out[(L, D)] = _outcome(lambda ops=ops, doc=doc: JSONPatch(copy.deepcopy(ops)).apply(copy.deepcopy(doc)))
        return out

    def foreign_patch(L: int) -> None:
        """Another patch object, same operation list, other options: URI decoding on, escape decoding off."""
        ctx.count("probe.foreign_patch_in_process")
        ctx.log.add("foreign-patch", L)
        try:
            fp = JSONPatch(copy.deepcopy(oplists[L]), unicode_escape=False, uri_decode=True)
            fp.apply(copy.deepcopy(docs[0]))
        except Exception:  # noqa: BLE001
            pass

    if plan.get("foreign"):
        # in a forked child: whatever the differently configured patch leaves behind cannot reach the reference
        ref = core.in_child(_refs)
        if plan["foreign"] == "early":
            for L in range(len(oplists)):
                foreign_patch(L)
    else:
        ref = _refs()
    for L, ops in enumerate(oplists):
        _scan_probes(ctx, ops, plan["failing_at"][L])

    patches: Dict[Tuple[int, str], _P] = {}
    all_patches: List[_P] = []
    printed: Dict[int, Any] = {}
    results: List[Dict[str, Any]] = []  # {"v": obj, "snap": tj, "client": c}
    mut_n = 0

    def build(L: int, form: str) -> _P:
        ops = caller[L]
        try:
            if form == "dicts":
                p = JSONPatch(ops)
            elif form == "text":
                p = JSONPatch(json.dumps(ops))
            elif form == "stringio":
                p = JSONPatch(io.StringIO(json.dumps(ops, indent=1)))
            elif form == "bytesio":
                p = JSONPatch(io.BytesIO(json.dumps(ops).encode()))
            elif form == "tuple":
                p = JSONPatch(tuple(ops))
            elif form == "generator":
                p = JSONPatch(o for o in ops)  # any iterable of operation mappings, also a one-shot one
            elif form == "file":
                p = JSONPatch(SimFile(json.dumps(ops).encode(), text=ctx.seed % 2 == 0, name=f"patch{L}.json"))
            elif form in ("builder_str", "builder_ptr"):
                p = JSONPatch()
                conv = (lambda s: s) if form == "builder_str" else (lambda s: JSONPointer(s))
                for o in ops:
                    name = o["op"]
                    # a chain: each call is made on what the previous one returned
                    if name in ("add", "addne", "addap", "replace", "test"):
                        p = getattr(p, name)(conv(o["path"]), o["value"])
                    elif name == "remove":
                        p = p.remove(conv(o["path"]))
                    else:
                        p = getattr(p, name)(conv(o["from"]), conv(o["path"]))
            elif form == "asdicts":
                basep = next((q for q in reversed(all_patches) if q.L == L), None)
                if basep is None:
                    basep = build(L, "dicts")
                p = JSONPatch(basep.obj.asdicts())
            else:
                raise core.HarnessError(f"unknown form {form}")
        except (core.HarnessError, Violation):
            raise
        except Exception as e:  # noqa: BLE001
            if form in ("tuple", "generator"):
                # "the JSON document form" is a list of dicts; other iterables of dicts are this harness's
                # extension of it: if the constructor refuses them outright, there is nothing to compare
                ctx.count("probe.iterable_form_refused")
                ctx.log.add("build-refused", L, form, type(e).__name__)
                return build(L, "dicts")
            raise Violation(
                "C15.effect",
                f"building operation list {L} in form {form!r} raised {type(e).__name__}: {e}; ops={core.short(oplists[L], 300)}",
                f"C15.effect:build:{form}:{type(e).__name__}",
            ) from None
        pr = p.asdicts()
        snap = core.tj(pr)
        # C15.name: entry i carries the op name the caller gave at position i
        names = [d.get("op") for d in pr]
        want = [o["op"] for o in oplists[L]]
        if names != want:
            bad = next((i for i, (a, b) in enumerate(zip(names, want)) if a != b), min(len(names), len(want)))
            raise Violation(
                "C15.name",
                f"patch built from form {form!r} prints op names {names} but the caller gave {want} (first difference at op {bad})",
                f"C15.name:{want[bad] if bad < len(want) else '?'}->{names[bad] if bad < len(names) else '?'}",
            )
        if L in printed:
            if snap != printed[L][0]:
                raise Violation(
                    "C15.print",
                    f"operation list {L}: form {form!r} prints {core.short(pr, 300)} but form {printed[L][1]!r} printed "
                    f"{core.short(printed[L][2], 300)}",
                    f"C15.print:{form}",
                )
        else:
            printed[L] = (snap, form, json.loads(core.jdump(pr)))  # a plain copy, whatever container types asdicts() uses
        rec = _P(p, snap, L, form, len(all_patches))
        patches[(L, form)] = rec
        all_patches.append(rec)
        ctx.log.add("build", L, form, "pid", rec.pid)
        ctx.state("build", form)
        return rec

    def check_patches(step: str, clause: str) -> None:
        for rec in all_patches:
            now = core.tj(rec.obj.asdicts())
            if now != rec.snap:
                raise Violation(
                    clause,
                    f"after {step}: patch {rec.pid} (list {rec.L}, form {rec.form!r}) now prints "
                    f"{core.short(rec.obj.asdicts(), 300)}; it printed {core.short(_untj(rec.snap), 300)} when built",
                    f"{clause}:patch-changed",
                )

    def check_caller(step: str) -> None:
        for L, ops in enumerate(caller):
            if core.tj(ops) != caller_snap[L]:
                raise Violation(
                    "C15.caller_unchanged",
                    f"after {step}: the caller's operation list {L} is now {core.short(ops, 300)}; it was {core.short(oplists[L], 300)}",
                    "C15.caller_unchanged:list-changed",
                )

    def check_results(step: str, skip: Optional[int]) -> None:
        for i, r in enumerate(results):
            if i == skip:
                continue
            if core.tj(r["v"]) != r["snap"]:
                raise Violation(
                    "C15.independent",
                    f"after {step}: retained result #{i} changed to {core.short(r['v'], 300)}; it was {core.short(_untj(r['snap']), 300)}",
                    "C15.independent:result-changed",
                )

    scripts = [list(s) for s in plan["clients"]]
    pcs = [0] * len(scripts)
    order = list(range(len(scripts)))  # MRU first
    own: List[List[int]] = [[] for _ in scripts]
    total = 0
    while True:
        runnable = [c for c in order if pcs[c] < len(scripts[c])]
        if not runnable or total > 200:
            break
        c = runnable[ctx.choose(len(runnable), "client")]
        order.remove(c)
        order.insert(0, c)
        ctx.switch(c)
        step = scripts[c][pcs[c]]
        pcs[c] += 1
        total += 1
        ctx.steps += 1
        kind = step[0]
        if kind == "build":
            _, L, form = step
            L %= len(oplists)
            build(L, form)
            check_caller(f"build({L},{form})")
        elif kind == "asdicts":
            _, L, form = step
            L %= len(oplists)
            rec = patches.get((L, form)) or build(L, form)
            ctx.log.add("asdicts", rec.pid)
            check_patches(f"asdicts({rec.pid})", "C15.patch_unchanged")
        elif kind == "apply":
            _, L, form, D = step[:4]
            docform = step[4] if len(step) > 4 else "value"
            L %= len(oplists)
            D %= len(docs)
            rec = patches.get((L, form)) or build(L, form)
            target = copy.deepcopy(docs[D])
            if docform == "text":
                target = json.dumps(docs[D])
                ctx.count("probe.document_as_text")
            elif docform == "stringio":
                target = io.StringIO(json.dumps(docs[D]))
                ctx.count("probe.document_as_text")
            kept: Any = target if docform == "value" else None
            try:
                res = rec.obj.apply(target)
                out: Tuple[str, Any] = ("ok", core.tj(res))
                kept = res
            except Exception as e:  # noqa: BLE001
                out = ("exc", type(e).__name__)
            want = ref[(L, D)]
            ctx.log.add("apply", "client", c, "pid", rec.pid, "doc", D, "n", rec.applied + 1, out[0], out[1] if out[0] == "exc" else "")
            ctx.state("apply", rec.form, min(rec.applied, 5), out[0], "after_fault" if rec.since_fault else "clean")
            if out != want:
                clause = "C15.repeat" if rec.applied > 0 else "C15.effect"
                raise Violation(
                    clause,
                    f"application #{rec.applied + 1} of patch {rec.pid} (list {L}, form {rec.form!r}) to document {D} gave "
                    f"{_show(out)} but a freshly built patch gives {_show(want)}; ops={core.short(oplists[L], 400)} doc={core.short(docs[D], 200)}",
                    f"{clause}:{out[0]}-vs-{want[0]}",
                )
            if out[0] == "exc":
                ctx.count("fault.foreign_doc.fired" if plan["failing_at"][L] is None else "fault.failop.fired")
                rec.since_fault = True
            elif rec.applied >= 1 and rec.since_fault:
                ctx.count("probe.apply_failed_then_reapplied")
                if has_container_op[L]:
                    ctx.nontrivial = True
            rec.applied += 1
            if rec.applied >= 5:
                ctx.count("probe.reuse_depth_ge_5")
            if kept is not None and not isinstance(kept, (dict, list)) and out[0] == "ok":
                ctx.count("probe.root_replaced")
            if kept is not None or out[0] == "ok":
                results.append({"v": kept, "snap": core.tj(kept), "client": c})
                own[c].append(len(results) - 1)
            stepname = f"apply #{rec.applied} of patch {rec.pid} to document {D}"
            check_patches(stepname, "C15.patch_unchanged")
            check_caller(stepname)
            check_results(stepname, len(results) - 1 if (kept is not None or out[0] == "ok") else None)
        elif kind == "foreign":
            foreign_patch(step[1] % len(oplists))
            check_patches("building and applying a patch with other options", "C15.independent")
        elif kind == "reapply":
            _, L, form, k = step
            L %= len(oplists)
            if not own[c]:
                continue
            ri = own[c][k % len(own[c])]
            target = results[ri]["v"]
            if not isinstance(target, (dict, list)):
                continue
            rec = patches.get((L, form)) or build(L, form)
            # reference: a freshly built patch on a private copy of the document as it is now
            want = _outcome(lambda: JSONPatch(copy.deepcopy(oplists[L])).apply(copy.deepcopy(target)))
            shown_doc = core.short(target, 200)
            kept2: Any = target
            try:
                res2 = rec.obj.apply(target)
                out2: Tuple[str, Any] = ("ok", core.tj(res2))
                kept2 = res2
            except Exception as e:  # noqa: BLE001
                out2 = ("exc", type(e).__name__)
            ctx.log.add("reapply", "client", c, "pid", rec.pid, "result", ri, out2[0], out2[1] if out2[0] == "exc" else "")
            ctx.state("reapply", rec.form, min(rec.applied, 5), out2[0])
            ctx.count("probe.reapplied_to_own_result")
            if out2 != want:
                raise Violation(
                    "C15.repeat",
                    f"patch {rec.pid} (list {L}, form {rec.form!r}, applied {rec.applied} times before) applied to a document it had "
                    f"produced earlier ({shown_doc}) gave {_show(out2)} but a freshly built patch gives {_show(want)}; ops={core.short(oplists[L], 400)}",
                    f"C15.repeat:reapply:{out2[0]}-vs-{want[0]}",
                )
            rec.applied += 1
            if out2[0] == "exc":
                rec.since_fault = True
            results[ri]["v"] = kept2
            results[ri]["snap"] = core.tj(kept2)
            stepname = f"re-applying patch {rec.pid} to retained result #{ri}"
            check_patches(stepname, "C15.patch_unchanged")
            check_caller(stepname)
            check_results(stepname, ri)
        elif kind == "mut":
            _, k, sel = step
            if not own[c]:
                continue
            ctx.count("fault.callermut.configured")
            ri = own[c][k % len(own[c])]
            r = results[ri]
            nodes: List[Any] = []
            _containers(r["v"], nodes)
            if not nodes:
                continue
            foreign: Dict[int, None] = {}
            tmp: List[Any] = []
            for ops in caller:
                _containers(ops, tmp)
            for rec in all_patches:
                _containers(rec.obj.asdicts(), tmp)
            for j, other in enumerate(results):
                if j != ri:
                    _containers(other["v"], tmp)
            for n in tmp:
                foreign[id(n)] = None
            aliased = [n for n in nodes if id(n) in foreign]
            pool = aliased or nodes
            if aliased:
                ctx.count("probe.mut_hit_aliased_node")
            node = pool[sel % len(pool)]
            mut_n += 1
            if isinstance(node, list):
                node.append(f"MUT{mut_n}")
            else:
                node[f"MUT{mut_n}"] = mut_n
            ctx.count("fault.callermut.fired")
            ctx.log.add("mut", "client", c, "result", ri, "aliased", bool(aliased))
            ctx.state("mut", "aliased" if aliased else "private", type(node).__name__)
            r["snap"] = core.tj(r["v"])
            for rec in all_patches:
                if rec.applied:
                    rec.since_fault = True
            stepname = f"the caller mutating retained result #{ri}"
            check_results(stepname, ri)
            check_patches(stepname, "C15.independent")
            check_caller(stepname)
        elif kind == "addx":
            _, xkind, D, path, value = step
            D %= len(docs)
            _check_addx(ctx, xkind, docs[D], path, value)
        else:
            raise core.HarnessError(f"unknown step {kind}")
    ctx.count("steps", total)


def _untj(t: Any) -> Any:
    k = t[0]
    if k == "n":
        return None
    if k in ("b", "i", "s"):
        return t[1]
    if k == "f":
        return float(t[1])
    if k == "o":
        return {a: _untj(b) for a, b in t[1]}
    if k == "l":
        return [_untj(x) for x in t[1]]
    return repr(t)


def _show(out: Tuple[str, Any]) -> str:
    if out[0] == "exc":
        return f"raises {out[1]}"
    return core.short(_untj(out[1]), 300)


def _scan_probes(ctx: Ctx, ops: List[Dict[str, Any]], failing_at: Optional[int]) -> None:
    if failing_at is not None:
        ctx.count("fault.failop.configured")
        if failing_at > 0:
            ctx.count("probe.failop_at_k_gt_0")
    cont_paths = []
    for o in ops:
        p = o.get("path", "")
        if any(p.startswith(cp + "/") for cp in cont_paths):
            ctx.count("probe.later_op_writes_inside_earlier_value")
            break
        if o["op"] in ("add", "addne", "addap", "replace") and isinstance(o.get("value"), (dict, list)) and not p.endswith("/-"):
            cont_paths.append(p)
    if any(o["op"] == "addap" for o in ops):
        ctx.count("probe.addap_from_document_form")


def _walk_parent(doc: Any, toks: List[str]) -> Tuple[bool, Any]:
    node = doc
    for t in toks[:-1]:
        if isinstance(node, dict):
            if t not in node:
                return False, None
            node = node[t]
        elif isinstance(node, list):
            if not t.isdigit() or (len(t) > 1 and t[0] == "0") or int(t) >= len(node):
                return False, None
            node = node[int(t)]
        else:
            return False, None
    return True, node


def _check_addx(ctx: Ctx, kind: str, doc: Any, path: str, value: Any) -> None:
    toks = gen_patch.dec(path)
    add_out = _outcome(lambda: JSONPatch().add(path, copy.deepcopy(value)).apply(copy.deepcopy(doc)))
    expected = add_out
    why = "same as add"
    if toks:
        ok, parent = _walk_parent(doc, toks)
        last = toks[-1]
        if ok and kind == "addne" and isinstance(parent, dict) and last in parent:
            expected = ("ok", core.tj(doc))
            why = "member exists: document unchanged"
        elif ok and kind == "addap" and isinstance(parent, list) and last.isdigit() and not (len(last) > 1 and last[0] == "0") and int(last) >= len(parent):
            ppath = "/".join(path.split("/")[:-1]) + "/-"
            expected = _outcome(lambda: JSONPatch().add(ppath, copy.deepcopy(value)).apply(copy.deepcopy(doc)))
            why = "index beyond the end: append"
    for form in ("builder", "dicts"):
        if form == "builder":
            got = _outcome(lambda: getattr(JSONPatch(), kind)(path, copy.deepcopy(value)).apply(copy.deepcopy(doc)))
        else:
            got = _outcome(
                lambda: JSONPatch([{"op": kind, "path": path, "value": copy.deepcopy(value)}]).apply(copy.deepcopy(doc))
            )
        ctx.log.add("addx", kind, form, path, got[0], why)
        ctx.state("addx", kind, form, why, got[0], expected[0])
        if got != expected:
            raise Violation(
                f"C15.{kind}",
                f"{kind}({path!r}, {core.short(value)}) [{form} form] on {core.short(doc, 200)} gives {_show(got)}; expected {_show(expected)} "
                f"({why}; add gives {_show(add_out)})",
                f"C15.{kind}:{form}:{got[0]}-vs-{expected[0]}:{why}",
            )


def shrink_plan(plan: Dict[str, Any]) -> Iterator[Dict[str, Any]]:
    # fewer clients
    for cl in ddmin_list(plan["clients"]):
        if cl:
            p = dict(plan)
            p["clients"] = cl
            yield p
    # fewer steps per client
    for ci, script in enumerate(plan["clients"]):
        for s in ddmin_list(script):
            p = dict(plan)
            p["clients"] = [list(x) for x in plan["clients"]]
            p["clients"][ci] = s
            yield p
    # simpler forms
    for ci, script in enumerate(plan["clients"]):
        for si, step in enumerate(script):
            if step[0] in ("build", "apply", "asdicts", "reapply") and step[2] != "dicts":
                p = dict(plan)
                p["clients"] = [[list(y) for y in x] for x in plan["clients"]]
                p["clients"][ci][si][2] = "dicts"
                yield p
    # fewer op lists (references are taken modulo)
    if len(plan["oplists"]) > 1:
        for i in range(len(plan["oplists"])):
            p = dict(plan)
            p["oplists"] = plan["oplists"][:i] + plan["oplists"][i + 1 :]
            p["failing_at"] = plan["failing_at"][:i] + plan["failing_at"][i + 1 :]
            yield p
    # fewer ops per list
    for li, ops in enumerate(plan["oplists"]):
        for o in ddmin_list(ops):
            if o:
                p = dict(plan)
                p["oplists"] = list(plan["oplists"])
                p["oplists"][li] = o
                yield p
    # fewer / simpler documents
    if len(plan["docs"]) > 1:
        for i in range(len(plan["docs"])):
            p = dict(plan)
            p["docs"] = plan["docs"][:i] + plan["docs"][i + 1 :]
            yield p
    for di, d in enumerate(plan["docs"]):
        for s in simpler_json(d):
            if isinstance(s, (dict, list)):
                p = dict(plan)
                p["docs"] = list(plan["docs"])
                p["docs"][di] = s
                yield p
    # simpler values inside ops
    for li, ops in enumerate(plan["oplists"]):
        for oi, o in enumerate(ops):
            if "value" in o:
                for s in simpler_json(o["value"]):
                    p = dict(plan)
                    p["oplists"] = [[dict(y) for y in x] for x in plan["oplists"]]
                    p["oplists"][li][oi]["value"] = s
                    yield p


def repro(spec: Dict[str, Any], violation: Dict[str, str]) -> str:
    plan = spec["plan"]
    return (
        "from jsonpath import JSONPatch\nimport copy\n"
        f"ops = {plan['oplists'][0]!r}\ndoc = {plan['docs'][0]!r}\n"
        "p = JSONPatch(ops)\nr1 = p.apply(copy.deepcopy(doc)); r2 = p.apply(copy.deepcopy(doc))\n"
        "print(r1, r2, p.asdicts(), ops)\n"
    )
