#!/venv/bin/python
"""Confirm and ingest behaviour-preserving refactors produced by independent sub-agents.

    tools/ingest_refactor.py /tmp/wt-r08 C08 r08 [C09 ...]

For every _seeded/patch<i>.diff: apply to a scratch copy of /repo, confirm the repository's tests
still pass, then run the quick check of every listed property against it; all must stay quiet.
Stored as /verif/seeded/<prefix>-<i>/{patch.diff, notes.md, meta.json} with "expect": "clean".
"""
import glob, json, os, re, shutil, subprocess, sys
sys.path.insert(0, os.path.dirname(os.path.abspath(__file__)))
from ingest_seeded import scratch, tests_pass, check, VERIF

def main():
    wt, prefix, props = sys.argv[1], sys.argv[2], [p.upper() for p in sys.argv[3:]]
    sd = os.path.join(wt, "_seeded")
    for patch in sorted(glob.glob(os.path.join(sd, "patch*.diff"))):
        i = re.search(r"patch(\d+)\.diff", patch).group(1)
        name = f"{prefix}-{i}"
        mut = scratch()
        try:
            ap = subprocess.run(["patch", "-p1", "-s", "-i", patch], cwd=mut, capture_output=True, text=True)
            if ap.returncode != 0:
                print(f"{name}: patch does not apply: {ap.stdout} {ap.stderr}"); continue
            t = tests_pass(mut)
            results = {p: check(mut, p, 1.0) for p in props}
            ok = all(r["rc"] == 0 for r in results.values())
            print(f"{name}: tests='{t}' " + " ".join(f"{p}: rc={r['rc']} {r['clauses']} {r['wall_s']}s" for p, r in results.items()) + ("" if ok else "   <-- ALARM"))
            for p, r in results.items():
                for m in r["messages"]:
                    print("      ", m)
                if r["stderr"]:
                    print("      ", r["stderr"])
            if " failed" not in t and "719 passed" in t:
                out = os.path.join(VERIF, "seeded", name)
                os.makedirs(out, exist_ok=True)
                shutil.copy(patch, os.path.join(out, "patch.diff"))
                notes = os.path.join(sd, f"notes{i}.md")
                if os.path.exists(notes):
                    shutil.copy(notes, os.path.join(out, "notes.md"))
                json.dump({"property": props[0], "also_checked": props[1:], "expect": "clean",
                           "source": "independent sub-agent asked for a behaviour-preserving refactor of the code the property depends on",
                           "what": open(notes).read().strip() if os.path.exists(notes) else "",
                           "confirmed": {"repository_tests_with_change": t},
                           "check_result_at_ingest": results}, open(os.path.join(out, "meta.json"), "w"), indent=1)
        finally:
            shutil.rmtree(mut, ignore_errors=True)

main()
