#!/venv/bin/python
"""Reach measurement: line coverage of /repo/jsonpath under each check's workload, in-process.

    cd $(mktemp -d) && for p in C08 C09 C11 C12 C15 C18; do
        /venv/bin/python -m coverage run --parallel-mode --source=/repo/jsonpath --concurrency=thread /verif/tools/libcov.py $p 1500; done
    /venv/bin/python -m coverage combine -q && /venv/bin/python -m coverage report --show-missing

(The batch runner forks workers that leave through os._exit, which coverage.py cannot see; this
driver executes the same generated runs sequentially in one process instead.)
"""
import importlib
import os
import sys

os.environ.setdefault("PYTHONHASHSEED", "0")
VERIF = os.path.dirname(os.path.dirname(os.path.abspath(__file__)))
sys.path[:0] = [os.environ.get("VERIF_REPO", "/repo"), VERIF]
from jpsim import simlock  # noqa: E402

simlock.install()
from jpsim import core, runner  # noqa: E402

prop = sys.argv[1].upper()
n = int(sys.argv[2]) if len(sys.argv) > 2 else 1000
mod = importlib.import_module(f"checks.{prop.lower()}")
for config, total in mod.BUDGET["quick"].items():
    if config == "subprocess":
        continue
    for i in range(min(n, total)):
        spec = runner.generate_spec(mod, core.derive_seed(7, prop, config, i), config, "quick")
        runner.run_one(mod, spec)
