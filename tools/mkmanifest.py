#!/venv/bin/python
"""Regenerate /verif/MANIFEST.json from the table below (keeps it valid and consistent)."""
import json
import os

VERIF = os.path.dirname(os.path.dirname(os.path.abspath(__file__)))

NA = {
    "C01": "nodelist of a (query, document) pair is a pure function of its inputs; there is no schedule, stream, process state or fault for a simulator to own (DESIGN.md section 6)",
    "C02": "truth table of filter expressions: pure function of (expression, document); nothing for a scheduler or fault injector to act on",
    "C03": "a match's path/parts/pointer/parent identify its node: pure function of (query, document)",
    "C04": "RFC 6901 resolution of (pointer, document): pure function",
    "C05": "RFC 6902 result of (patch, document): the operation sequence lives inside one synchronous call on one private document; pure function of its two inputs",
    "C06": "only documented error families escape / every call terminates: a for-all-inputs robustness claim with no schedule or fault beyond the input text (its CLI-facing slice is exercised under C18)",
    "C07": "compile-time acceptance/rejection: pure function of (query text, environment limits)",
    "C10": "str(compile(q)) round-trips: pure function of the query",
    "C13": "documented extension syntax evaluates as documented: pure function of (query, document, context)",
    "C14": "pointer text/tokens/join/parent laws: algebra over immutable values; the chains are compositions of pure functions",
    "C16": "relative JSON pointer parse/print/apply: pure function of (base, relative pointer)",
    "C17": "renaming identifier tokens: pure function of (configuration, query, document); configuration is fixed at environment construction",
    "C19": "projection styles: pure function of (document, queries, style)",
    "C20": "match -> pointer -> patch edits exactly the node: composition of pure steps on a private copy",
}

CHECKS = {
    "C08": {
        "text": "Seeded search over event-loop schedules and store faults: the real async API runs on a simulated event loop (virtual clock, seeded choice of the next ready handle) over simulated async documents whose item getter suspends, delays, reorders and fails (with the error classes the engine suppresses for missing items, too) under simulator control, with several tasks hammering one compiled query, cancellations landing inside in-flight evaluations, filters that die at evaluation time through a simulator-controlled function extension, and documents also given as text or short-read streams; texts the environment refuses, undecodable and string-root text documents; every async result is compared with the synchronous twin on the same objects (values, types, order, paths, parts, error class), and bounded progress is required once faults stop. Sampling, not proof.",
        "design": "4.1",
        "note": "Trusted: CPython asyncio Task/Future machinery above the custom loop; the sync API as reference (differential oracle: a bug identical in both halves is invisible); harness wrappers SimMap/SimSeq return the same items from both getters.",
        "technique": "deterministic simulation: custom asyncio event loop with virtual time + seeded scheduler, fault-injecting async item store, differential oracle vs sync API, choice-list replay/minimisation",
    },
    "C09": {
        "text": "Seeded search over interleavings of lazy iterators, asyncio tasks and line-pre-empted threads sharing compiled queries, environments (caching on/off, default env) and documents, with abandon/cancel/store-error/gc/regex-cache-purge faults, short-lived documents, mass compilation on the shared environment, filters that die at evaluation time, and (in some runs) a differently configured environment living in the same process; every produced match is compared at the step that produces it with a sequential reference (fresh environment, caching off, isolated; computed in a forked child when another configuration is in play), and documents, contexts, compiled queries and matches handed out earlier are checked unchanged. Sampling, not proof.",
        "design": "4.2",
        "note": "Trusted: the isolated cache-off evaluation as sequential specification; thread pre-emption at source-line granularity inside jsonpath/ only (sys.settrace); CPython generators/asyncio.",
        "technique": "deterministic simulation: iterator scheduler, simulated event loop, baton-passed threads pre-empted via sys.settrace; history/linearizability-style check against an isolated sequential reference; fault injection; replay/minimisation",
    },
    "C11": {
        "text": "Seeded search over histories of entry-point calls on documents supplied as parsed values (private or one shared object), JSON text (also white-space padded) and single-use readable streams (in-memory file stubs with a cursor, short-read pipes, text streams in other encodings, real files; closed by the caller once the call has returned), with lazy results advanced in seeded interleavings with other calls or abandoned, and another environment appearing mid-history; results are compared across entry points, document forms and against the left-to-right union/intersection fold. Sampling, not proof.",
        "design": "4.3",
        "note": "Trusted: compiled.findall(parsed value) as the reference for each simple query; Python json for the text/stream forms; stream stubs model read()/cursor/EOF only (no failing reads: the property gives them no meaning).",
        "technique": "deterministic simulation: single-use stream stubs + iterator scheduler over lazy results, differential oracle between entry points and document forms, replay/minimisation",
    },
    "C12": {
        "text": "Seeded search over histories of Query operations on several live handles sharing one underlying lazy iterator (original, take children, tee siblings); the simulator chooses which handle each operation applies to and injects refused negative counts; every observation is compared with a list model. Sampling (near-exhaustive for short histories over the small op alphabet; measured pair coverage is in the evidence), not proof.",
        "design": "4.4",
        "note": "Trusted: the engine's own match list as the source sequence; Python list slicing as the model; views treated as terminal and the original not used after tee(), as documented.",
        "technique": "deterministic simulation: seeded handle scheduler over a real lazy iterator pipeline, model-based (list) oracle, fault injection of refused operations, replay/minimisation",
    },
    "C15": {
        "text": "Seeded search over histories of build / apply / failing-apply / caller-mutates-result / re-apply (to fresh copies, to JSON text and streams, and to documents the patch produced earlier) steps on long-lived patch objects built in every form (list, tuple or generator of dicts, JSON text, text and binary streams, builder chain with string and JSONPointer paths, the patch's own asdicts output), with a patch built with other options appearing in the same process in some runs; after every step the patch, the caller's list and all retained results are compared with snapshots and with a freshly built patch applied in isolation; addne/addap are compared with add. Sampling, not proof.",
        "design": "4.5",
        "note": "Trusted: a freshly built patch applied once to a private copy as the reference effect; a ten-line pointer walk decides 'parent is an object that has the member' for the addne/addap clauses, generated only where the statement is unambiguous.",
        "technique": "deterministic simulation: history machine over a shared long-lived value with injected failing applications and caller mutations, snapshot/alias oracle against a fresh-patch reference, replay/minimisation",
    },
    "C18": {
        "text": "Seeded search over simulated process invocations: the real `python -m jsonpath` entry (jsonpath/__main__.py, run in-process through runpy) runs behind a process stub (own argv, named closable stdin/stdout/stderr, exit status, freshly imported CLI modules, a scratch working directory holding exactly the run's files) whose stored bytes are corrupted (truncated, flipped, emptied, garbage, invalid UTF-8, UTF-16, BOM, padding) before the run, over every option combination, inline / file / empty / multi-line expressions, documents with non-ASCII text, lone surrogates and non-finite numbers; output bytes (any json.dumps rendering of the same value counts as its serialisation), exit status and stderr are compared with the corresponding library call on the same bytes; a sample is cross-checked against a real python -m jsonpath subprocess. Sampling, not proof.",
        "design": "4.6",
        "note": "Trusted: the library call behind each sub-command as reference; json.dumps as 'the JSON serialisation'; the in-process stub for all but the sampled subprocess runs; stdin may reach the library as text or bytes, a -f file as bytes. I/O errors (EIO, ENOSPC, missing file) are not injected: the property gives them no meaning.",
        "technique": "deterministic simulation of the process boundary: process stub over a per-run scratch directory with stored-byte fault injection, differential oracle vs library call, sampled real-subprocess parity, replay/minimisation",
    },
}


def main() -> None:
    present = [p for p in CHECKS if os.path.exists(os.path.join(VERIF, "checks", p.lower() + ".py"))]
    checks = []
    for p in present:
        c = CHECKS[p]
        checks.append(
            {
                "property_id": p,
                "quick_cmd": f"bin/check {p} --tier quick",
                "thorough_cmd": f"bin/check {p} --tier thorough",
                "evidence_file": f"/verif/evidence/{p}.json",
                "replay_cmd_template": f"bin/check {p} --replay {{path}}",
                "engine": "jpsim",
                "level_claimed": {"category": "exploration", "text": c["text"], "design_ref": f"DESIGN.md section {c['design']}"},
                "level_note": c["note"],
                "technique": c["technique"],
            }
        )
    na = [{"property_id": k, "reason": v} for k, v in NA.items()]
    for p in CHECKS:
        if p not in present:
            na.append({"property_id": p, "reason": "check not built yet in this snapshot (planned: deterministic simulation, see DESIGN.md section 4)"})
    m = {
        "version": 1,
        "setup_cmd": "/venv/bin/python -c \"import sys; sys.path.insert(0,'/repo'); import jsonpath, asyncio; print('jsonpath', jsonpath.__file__)\"",
        "hooks": {
            "guard": "JSONPATH_VERIF",
            "enable": "no hooks are needed: every seam (event loop, __getitem_async__ documents, io.IOBase documents, sys.argv / std streams / working directory of `python -m jsonpath`, threading.Lock factories, sys.settrace) already exists; checks import /repo's working tree directly (bin/check sets JSONPATH_VERIF=1 for form only)",
            "baseline_off_cmd": "cd /repo && /venv/bin/python -m pytest -q -p no:cacheprovider --timeout=900 --continue-on-collection-errors",
            "source_commits": [],
            "add_only": True,
        },
        "engines": [
            {
                "name": "jpsim",
                "path": "/verif/jpsim",
                "serves_properties": present,
                "kind_free_text": "seeded deterministic simulator: custom asyncio loop with virtual clock, baton-passed settrace threads, iterator scheduler, in-memory stream stubs, process stub over a scratch directory, fault injection, choice-list replay and minimisation",
            }
        ],
        "checks": checks,
        "not_applicable": na,
        "notes": "Technique family: deterministic simulation with fault injection (DESIGN.md). VERIF_SEED selects the seed base; VERIF_RUNS_SCALE scales run counts; exit 2 = harness error (never accompanied by a VIOLATION line).",
    }
    with open(os.path.join(VERIF, "MANIFEST.json"), "w") as f:
        json.dump(m, f, indent=1)
        f.write("\n")
    print("checks:", present)


if __name__ == "__main__":
    main()
