#!/venv/bin/python
"""Confirm and ingest seeded changes produced by independent sub-agents.

    tools/ingest_seeded.py /tmp/wt-c08-a C08 c08a

For every _seeded/patch<i>.diff in the worktree: apply it to a scratch copy of /repo (outside
/repo and /verif), confirm (1) the repository's tests still pass, (2) the demonstration fails
with the change and passes without it, then (3) run the property's quick check against it.
Confirmed changes are stored as /verif/seeded/<prefix>-<i>/{patch.diff, demo.py, notes.md, meta.json}.
"""
from __future__ import annotations

import glob
import json
import os
import re
import shutil
import subprocess
import sys
import tempfile
import time

VERIF = os.path.dirname(os.path.dirname(os.path.abspath(__file__)))
REPO = "/repo"
PY = "/venv/bin/python"


def scratch() -> str:
    d = tempfile.mkdtemp(prefix="jpsim-seed-", dir=os.environ.get("TMPDIR") or "/tmp")
    for name in ("jsonpath", "tests", "pyproject.toml", "README.md", "docs"):
        src = os.path.join(REPO, name)
        if os.path.isdir(src):
            shutil.copytree(src, os.path.join(d, name), ignore=shutil.ignore_patterns("__pycache__"))
        elif os.path.exists(src):
            shutil.copy(src, os.path.join(d, name))
    return d


def tests_pass(root: str) -> str:
    p = subprocess.run([PY, "-m", "pytest", "-q", "-p", "no:cacheprovider", "--continue-on-collection-errors", "tests"],
                       cwd=root, capture_output=True, text=True, env={**os.environ, "PYTHONPATH": root, "PYTHONDONTWRITEBYTECODE": "1"})
    return p.stdout.strip().splitlines()[-1] if p.stdout.strip() else "?"


def demo(root: str, path: str) -> int:
    p = subprocess.run([PY, path], cwd=os.path.dirname(path), capture_output=True, text=True, timeout=600,
                       env={**os.environ, "PYTHONPATH": root, "PYTHONDONTWRITEBYTECODE": "1"})
    return p.returncode


def check(root: str, prop: str, runs: float) -> dict:
    t0 = time.time()
    p = subprocess.run([os.path.join(VERIF, "bin", "check"), prop, "--tier", "quick", "--runs", str(runs), "--no-evidence", "--no-selfcheck"],
                       cwd=VERIF, capture_output=True, text=True, env={**os.environ, "VERIF_REPO": root})
    lines = p.stdout.splitlines()
    clauses = sorted({l.split(":")[0] for l in lines if l.startswith(prop + ".")})
    msgs = [l[:300] for l in lines if l.startswith(prop + ".")][:2]
    for l in lines:
        if l.startswith("VIOLATION"):
            rp = l.split("replay=")[1].strip()
            if os.path.exists(rp):
                os.remove(rp)
    return {"rc": p.returncode, "clauses": clauses, "messages": msgs, "wall_s": round(time.time() - t0, 1), "stderr": p.stderr[-300:] if p.returncode == 2 else ""}


def main() -> int:
    wt, prop, prefix = sys.argv[1], sys.argv[2].upper(), sys.argv[3]
    runs = float(sys.argv[4]) if len(sys.argv) > 4 else 1.0
    sd = os.path.join(wt, "_seeded")
    for patch in sorted(glob.glob(os.path.join(sd, "patch*.diff"))):
        i = re.search(r"patch(\d+)\.diff", patch).group(1)
        demo_src = os.path.join(sd, f"demo{i}.py")
        notes = os.path.join(sd, f"notes{i}.md")
        name = f"{prefix}-{i}"
        clean = scratch()
        mut = scratch()
        try:
            ap = subprocess.run(["patch", "-p1", "-s", "-i", patch], cwd=mut, capture_output=True, text=True)
            if ap.returncode != 0:
                print(f"{name}: patch does not apply: {ap.stdout} {ap.stderr}")
                continue
            dcopy = os.path.join(mut, "_demo.py")
            shutil.copy(demo_src, dcopy)
            dclean = os.path.join(clean, "_demo.py")
            shutil.copy(demo_src, dclean)
            t = tests_pass(mut)
            rc_mut = demo(mut, dcopy)
            rc_clean = demo(clean, dclean)
            confirmed = (" failed" not in t and "719 passed" in t) and rc_mut != 0 and rc_clean == 0
            res = check(mut, prop, runs)
            print(f"{name}: tests='{t}' demo(clean)={rc_clean} demo(changed)={rc_mut} confirmed={confirmed} check rc={res['rc']} {res['clauses']} {res['wall_s']}s {res['stderr']}")
            for m in res["messages"]:
                print("     ", m)
            if confirmed:
                out = os.path.join(VERIF, "seeded", name)
                os.makedirs(out, exist_ok=True)
                shutil.copy(patch, os.path.join(out, "patch.diff"))
                shutil.copy(demo_src, os.path.join(out, "demo.py"))
                if os.path.exists(notes):
                    shutil.copy(notes, os.path.join(out, "notes.md"))
                meta = {
                    "property": prop,
                    "source": "independent sub-agent given only the property text and a scratch worktree",
                    "needs_to_manifest": open(notes).read().strip() if os.path.exists(notes) else "",
                    "confirmed": {
                        "repository_tests_with_change": t,
                        "demo_exit_on_unchanged_tree": rc_clean,
                        "demo_exit_with_change": rc_mut,
                        "how": "tools/ingest_seeded.py: patch applied to a scratch copy of /repo under /tmp, pytest + demo run with PYTHONPATH=<copy>",
                    },
                    "check_result_at_ingest": {"cmd": f"VERIF_REPO=<copy> bin/check {prop} --tier quick --runs {runs}", **res},
                }
                json.dump(meta, open(os.path.join(out, "meta.json"), "w"), indent=1)
        finally:
            shutil.rmtree(clean, ignore_errors=True)
            shutil.rmtree(mut, ignore_errors=True)
    return 0


if __name__ == "__main__":
    sys.exit(main())
