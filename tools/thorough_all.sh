#!/bin/sh
# Run every check's thorough tier against /repo and keep a copy of the evidence it writes under
# evidence/thorough/ (evidence/<ID>.json itself is rewritten by every run, quick or thorough).
cd "$(dirname "$0")/.." || exit 2
mkdir -p evidence/thorough
rc=0
for p in ${1:-C12 C18 C15 C11 C08 C09}; do
  bin/check "$p" --tier thorough || rc=$?
  cp "evidence/$p.json" "evidence/thorough/$p.json"
done
exit $rc
