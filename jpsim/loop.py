"""SimLoop: a deterministic asyncio event loop with a virtual clock.

Subclass of ``asyncio.BaseEventLoop``.  No selector, no real sleeping, no
threads.  ``time()`` is a virtual clock that jumps to the next timer when
nothing is ready; ``_run_once()`` runs exactly **one** ready handle, chosen by
the run's chooser (index 0 = asyncio's own FIFO order).  Real ``asyncio.Task``,
``Future``, ``gather``, cancellation and async-generator hooks run unmodified on
top.
"""
from __future__ import annotations

import asyncio
import heapq
from typing import Any
from typing import Callable
from typing import Optional


class SimDeadlock(Exception):
    """Nothing is ready, no timer is pending, and the main future is not done."""


class SimBudget(Exception):
    """The loop-step cap of the run was exceeded."""


class SimLoop(asyncio.BaseEventLoop):
    def __init__(self, choose: Callable[[int, str], int], max_steps: int = 100000) -> None:
        super().__init__()
        self._vtime = 0.0
        self._choose = choose
        self.steps = 0
        self.max_steps = max_steps
        self.drain = False  # FIFO, no choices: used while shutting down
        self.on_step: Optional[Callable[["SimLoop"], None]] = None
        self.timer_jumps = 0
        self.nontrivial_choices = 0
        self.executor_jobs = 0
        self.set_exception_handler(lambda _loop, _ctx: None)

    # --- clock
    def time(self) -> float:
        return self._vtime

    # --- no self-pipe, no selector
    def _write_to_self(self) -> None:
        return None

    def _process_events(self, event_list: Any) -> None:  # pragma: no cover
        return None

    # --- no real worker threads: a job handed to an executor (e.g. json.load of a stream moved off
    # the loop) runs to completion here; its result arrives through an ordinary ready handle, so the
    # seeded scheduler still decides when the awaiting task resumes.
    def run_in_executor(self, executor: Any, func: Any, *args: Any) -> Any:
        self._check_closed()
        self.executor_jobs += 1
        fut = self.create_future()
        try:
            result = func(*args)
        except (SystemExit, KeyboardInterrupt):
            raise
        except BaseException as e:  # noqa: BLE001
            self.call_soon(_set_exc_unless_done, fut, e)
        else:
            self.call_soon(_set_res_unless_done, fut, result)
        return fut

    def _run_once(self) -> None:
        sched = self._scheduled
        while sched and sched[0]._cancelled:
            h = heapq.heappop(sched)
            h._scheduled = False
            if self._timer_cancelled_count > 0:
                self._timer_cancelled_count -= 1
        if not self._ready and sched:
            when = sched[0]._when
            if when > self._vtime:
                self._vtime = when
                self.timer_jumps += 1
        end = self._vtime + self._clock_resolution
        while sched and sched[0]._when < end:
            h = heapq.heappop(sched)
            h._scheduled = False
            if h._cancelled:
                if self._timer_cancelled_count > 0:
                    self._timer_cancelled_count -= 1
                continue
            self._ready.append(h)
        if not self._ready:
            if self._stopping:
                return
            raise SimDeadlock()
        self.steps += 1
        if self.steps > self.max_steps:
            raise SimBudget()
        if self.on_step is not None and not self.drain:
            self.on_step(self)
        n = len(self._ready)
        idx = 0
        if n > 1 and not self.drain:
            idx = self._choose(n, "loop")
            if idx:
                self.nontrivial_choices += 1
        handle = self._ready[idx]
        del self._ready[idx]
        if handle._cancelled:
            return
        handle._run()
        handle = None  # type: ignore[assignment]


def _set_res_unless_done(fut: Any, result: Any) -> None:
    if not fut.done():
        fut.set_result(result)


def _set_exc_unless_done(fut: Any, exc: BaseException) -> None:
    if not fut.done():
        fut.set_exception(exc)


def run_sim(loop: SimLoop, main: Any) -> Any:
    """Run *main* to completion on *loop*, then close async generators and the loop."""
    try:
        return loop.run_until_complete(main)
    finally:
        loop.drain = True
        loop.max_steps = loop.steps + 5000
        try:
            pending = [t for t in asyncio.all_tasks(loop) if not t.done()]
            for t in pending:
                t.cancel()
            if pending:
                loop.run_until_complete(asyncio.gather(*pending, return_exceptions=True))
            loop.run_until_complete(loop.shutdown_asyncgens())
        except BaseException:  # noqa: BLE001
            pass
        loop.close()
