"""Simulated document store: mappings and sequences with an async item getter.

``SimMap`` / ``SimSeq`` wrap JSON containers.  ``__getitem__`` delegates;
``async __getitem_async__`` asks the simulator what to do first (return at once,
bare yield, virtual delay) -- which decides the order in which concurrent
evaluations complete their item fetches.  Both getters raise ``SimStoreError``
for the run's failing sites, so sync/async error parity stays well defined.
"""
from __future__ import annotations

import asyncio
from collections.abc import Mapping
from collections.abc import Sequence
from typing import Any
from typing import Callable
from typing import Dict
from typing import Iterator
from typing import List
from typing import Optional
from typing import Tuple

DELAYS = [0.0, 0.001, 0.005, 0.02, 0.1]


class SimStoreError(Exception):
    """Item access failed in the simulated store."""


ERR_KINDS = {
    "store": SimStoreError,
    # a lazily loading store may fail with the very classes the engine suppresses for *missing* items
    "key": KeyError,
    "index": IndexError,
    "type": TypeError,
    "value": ValueError,
}


class Store:
    """Per-run store state shared by all wrapped containers."""

    def __init__(self, choose: Callable[..., int], p_get: float = 0.4) -> None:
        self.choose = choose
        self.p_get = p_get
        self.failing: Dict[Tuple[str, str], str] = {}
        self.sync_gets = 0
        self.async_gets = 0
        self.suspended = 0
        self.delayed = 0
        self.errors_fired = 0
        self.virtual_delay = 0.0
        self.in_get = 0  # number of getter calls currently suspended
        self.concurrent = False  # only the concurrent phase consumes choices
        self.offered = 0

    def fail_site(self, path: str, key: Any) -> bool:
        return (path, repr(key)) in self.failing

    def _fail(self, path: str, key: Any) -> None:
        kind = self.failing.get((path, repr(key)))
        if kind is not None:
            self.errors_fired += 1
            raise ERR_KINDS.get(kind or "store", SimStoreError)(f"store failure at {path}[{key!r}]")

    def sync_get(self, path: str, key: Any) -> None:
        self.sync_gets += 1
        if self.failing:
            self._fail(path, key)

    async def async_get(self, path: str, key: Any) -> None:
        self.async_gets += 1
        if self.concurrent:
            self.offered += 1
            c = self.choose(len(DELAYS) + 1, "get", self.p_get)
            if c:
                self.in_get += 1
                try:
                    if c == 1:
                        self.suspended += 1
                        await asyncio.sleep(0)
                    else:
                        self.suspended += 1
                        self.delayed += 1
                        d = DELAYS[c - 1]
                        self.virtual_delay += d
                        await asyncio.sleep(d)
                finally:
                    self.in_get -= 1
        if self.failing:
            self._fail(path, key)


class SimMap(Mapping):  # type: ignore[type-arg]
    __slots__ = ("_d", "_store", "_path")

    def __init__(self, d: Dict[str, Any], store: Store, path: str) -> None:
        self._d = d
        self._store = store
        self._path = path

    def __getitem__(self, key: Any) -> Any:
        self._store.sync_get(self._path, key)
        return self._d[key]

    async def __getitem_async__(self, key: Any) -> Any:
        await self._store.async_get(self._path, key)
        return self._d[key]

    def __iter__(self) -> Iterator[str]:
        return iter(self._d)

    def __len__(self) -> int:
        return len(self._d)

    def __contains__(self, key: Any) -> bool:
        return key in self._d

    def __eq__(self, other: Any) -> bool:
        if isinstance(other, (SimMap, dict)):
            return unwrap_value(self) == unwrap_value(other)
        return NotImplemented

    __hash__ = None  # type: ignore[assignment]

    def __sim_unwrap__(self) -> Any:
        return {k: unwrap_value(v) for k, v in self._d.items()}

    def __repr__(self) -> str:
        return f"SimMap({self.__sim_unwrap__()!r})"


class SimSeq(Sequence):  # type: ignore[type-arg]
    __slots__ = ("_l", "_store", "_path")

    def __init__(self, l: List[Any], store: Store, path: str) -> None:
        self._l = l
        self._store = store
        self._path = path

    def __getitem__(self, key: Any) -> Any:
        self._store.sync_get(self._path, key)
        return self._l[key]

    async def __getitem_async__(self, key: Any) -> Any:
        await self._store.async_get(self._path, key)
        return self._l[key]

    def __len__(self) -> int:
        return len(self._l)

    def __iter__(self) -> Iterator[Any]:
        return iter(self._l)

    def __contains__(self, v: Any) -> bool:
        return any(v == x for x in self._l)

    def __eq__(self, other: Any) -> bool:
        if isinstance(other, (SimSeq, list)):
            return unwrap_value(self) == unwrap_value(other)
        return NotImplemented

    __hash__ = None  # type: ignore[assignment]

    def __sim_unwrap__(self) -> Any:
        return [unwrap_value(v) for v in self._l]

    def __repr__(self) -> str:
        return f"SimSeq({self.__sim_unwrap__()!r})"


def unwrap_value(v: Any) -> Any:
    un = getattr(v, "__sim_unwrap__", None)
    if un is not None:
        return un()
    if isinstance(v, dict):
        return {k: unwrap_value(x) for k, x in v.items()}
    if isinstance(v, list):
        return [unwrap_value(x) for x in v]
    return v


def wrap(v: Any, store: Store, mode: str, depths: Optional[List[int]] = None, depth: int = 0, path: str = "$") -> Any:
    """Wrap the containers of JSON value *v* according to *mode* ('none' | 'all' | 'depths')."""
    if isinstance(v, dict):
        d = {k: wrap(x, store, mode, depths, depth + 1, f"{path}/{k}") for k, x in v.items()}
        if mode == "all" or (mode == "depths" and depths is not None and depth in depths):
            return SimMap(d, store, path)
        return d
    if isinstance(v, list):
        l = [wrap(x, store, mode, depths, depth + 1, f"{path}/{i}") for i, x in enumerate(v)]
        if mode == "all" or (mode == "depths" and depths is not None and depth in depths):
            return SimSeq(l, store, path)
        return l
    return v


def sites(v: Any, path: str = "$") -> List[Tuple[str, str]]:
    """All (container path, repr(key)) item-access sites of a JSON value."""
    out: List[Tuple[str, str]] = []
    if isinstance(v, dict):
        for k, x in v.items():
            out.append((path, repr(k)))
            out.extend(sites(x, f"{path}/{k}"))
    elif isinstance(v, list):
        for i, x in enumerate(v):
            out.append((path, repr(i)))
            out.extend(sites(x, f"{path}/{i}"))
    return out
