"""Seeded JSON Patch generator over an evolving document."""
from __future__ import annotations

import copy
import random
from typing import Any
from typing import Dict
from typing import List
from typing import Optional
from typing import Tuple

from . import gen_json

# ASCII-only keys without integer look-alikes and without the library's pointer
# extensions ('~name', '#name'): where RFC 6901 and the statement are unambiguous.
PATCH_KEYS = ["a", "b", "c", "x", "y", "d", "", "a b", "'", '"', "a/b", "m~n", "k-1", "_p", "t ", "w\t", "%41"]


def patch_profile(rng: random.Random) -> Dict[str, Any]:
    return {
        "max_depth": rng.choice([1, 2, 2, 3]),
        "max_children": rng.choice([2, 3, 3]),
        "odd_keys": False,
        "stringy": False,
        "p_container": rng.choice([0.4, 0.6]),
        "lookalikes": rng.random() < 0.5,
        "keys": PATCH_KEYS[: rng.choice([4, 6, len(PATCH_KEYS)])],
    }


def gen_pvalue(rng: random.Random, prof: Dict[str, Any], depth: int = 0) -> Any:
    if depth >= prof["max_depth"] or rng.random() > prof["p_container"]:
        return gen_json.gen_scalar(rng, prof)
    n = rng.randint(0, prof["max_children"])
    if rng.random() < 0.5:
        return {rng.choice(prof["keys"]): gen_pvalue(rng, prof, depth + 1) for _ in range(n)}
    return [gen_pvalue(rng, prof, depth + 1) for _ in range(n)]


def gen_pdoc(rng: random.Random, prof: Dict[str, Any]) -> Any:
    n = rng.randint(1, prof["max_children"] + 1)
    if rng.random() < 0.04:
        n = 0  # the empty document is falsy: "if not doc" is not "is None"
    if rng.random() < 0.65:
        return {rng.choice(prof["keys"]): gen_pvalue(rng, prof, 1) for _ in range(n)}
    return [gen_pvalue(rng, prof, 1) for _ in range(n)]


def enc(loc: Tuple[Any, ...]) -> str:
    return "".join("/" + str(p).replace("~", "~0").replace("/", "~1") for p in loc)


def dec(pointer: str) -> List[str]:
    if pointer == "":
        return []
    return [t.replace("~1", "/").replace("~0", "~") for t in pointer.split("/")[1:]]


def container_value(rng: random.Random, prof: Dict[str, Any]) -> Any:
    r = rng.random()
    if r < 0.35:
        return []
    if r < 0.6:
        return {}
    if r < 0.8:
        return [gen_json.gen_scalar(rng, prof)]
    return {rng.choice(prof["keys"]): gen_pvalue(rng, prof, 2)}


def gen_op(rng: random.Random, prof: Dict[str, Any], doc: Any, hot: Optional[Tuple[Any, ...]], kinds: List[str]) -> Dict[str, Any]:
    """One plausible op for the current state of *doc*.

    *hot* is the location of a container inserted by an earlier op of the same
    patch: later ops are biased to write inside it (the aliasing case).
    """
    locs = gen_json.walk(doc)
    containers = [(l, v) for l, v in locs if isinstance(v, (dict, list))]
    nonroot = [(l, v) for l, v in locs if l]
    kind = rng.choice(kinds)

    def value() -> Any:
        if rng.random() < 0.5:
            return container_value(rng, prof)
        return gen_pvalue(rng, prof, prof["max_depth"] - 1)

    def dest() -> Tuple[Any, ...]:
        if hot is not None and rng.random() < 0.6:
            tgt = hot
            node: Any = doc
            try:
                for k in hot:
                    node = node[k]
            except Exception:  # noqa: BLE001
                node = None
            if isinstance(node, list):
                return tgt + (rng.choice(["-", 0, len(node) - 1 if node else "-"]),)
            if isinstance(node, dict):
                return tgt + (rng.choice(prof["keys"]),)
        if containers and rng.random() < 0.8:
            l, v = rng.choice(containers)
            if isinstance(v, list):
                return l + (rng.choice(["-"] + list(range(len(v)))),)
            if v and rng.random() < 0.4:
                return l + (rng.choice(list(v.keys())),)
            return l + (rng.choice(prof["keys"]),)
        if nonroot:
            return rng.choice(nonroot)[0]
        return ()

    if kind in ("add", "addne", "addap"):
        d = dest()
        if kind == "addap" and rng.random() < 0.5:
            arrs = [(l, v) for l, v in containers if isinstance(v, list)]
            if arrs:
                l, v = rng.choice(arrs)
                d = l + (len(v) + rng.randint(0, 3),)
        if kind == "addne" and rng.random() < 0.5:
            objs = [(l, v) for l, v in containers if isinstance(v, dict) and v]
            if objs:
                l, v = rng.choice(objs)
                d = l + (rng.choice(list(v.keys())),)
        return {"op": kind, "path": enc(d), "value": value()}
    if kind == "remove":
        if not nonroot:
            return {"op": "add", "path": "/a", "value": value()}
        return {"op": "remove", "path": enc(rng.choice(nonroot)[0])}
    if kind == "replace":
        tgt = rng.choice(nonroot)[0] if nonroot and rng.random() < 0.9 else ()
        return {"op": "replace", "path": enc(tgt), "value": value()}
    if kind in ("move", "copy"):
        if not nonroot:
            return {"op": "add", "path": "/a", "value": value()}
        src = rng.choice(nonroot)[0]
        for _ in range(5):
            d = dest()
            if d[: len(src)] != src:
                break
        return {"op": kind, "from": enc(src), "path": enc(d)}
    # test
    l, v = rng.choice(locs)
    return {"op": "test", "path": enc(l), "value": copy.deepcopy(v)}


def evolve(JSONPatch: Any, doc: Any, op: Dict[str, Any]) -> Tuple[bool, Any]:
    """Apply one op to a scratch copy with the engine (only to pick plausible paths)."""
    try:
        return True, JSONPatch([copy.deepcopy(op)]).apply(doc)
    except Exception:  # noqa: BLE001
        return False, doc


def gen_oplist(rng: random.Random, prof: Dict[str, Any], JSONPatch: Any, doc: Any, n_ops: int, kinds: List[str]) -> List[Dict[str, Any]]:
    scratch = copy.deepcopy(doc)
    ops: List[Dict[str, Any]] = []
    hot: Optional[Tuple[Any, ...]] = None
    tries = 0
    while len(ops) < n_ops and tries < n_ops * 6:
        tries += 1
        if not isinstance(scratch, (dict, list)):
            break
        op = gen_op(rng, prof, scratch, hot, kinds)
        ok, scratch2 = evolve(JSONPatch, copy.deepcopy(scratch), op)
        if not ok:
            continue
        scratch = scratch2
        ops.append(op)
        if op["op"] in ("add", "addne", "addap", "replace") and isinstance(op.get("value"), (dict, list)):
            toks = dec(op["path"])
            if toks and toks[-1] == "-":
                # appended: find its index
                node: Any = scratch
                try:
                    for t in toks[:-1]:
                        node = node[int(t)] if isinstance(node, list) else node[t]
                    hot = tuple(_tok(scratch, toks[:-1])) + (len(node) - 1,)
                except Exception:  # noqa: BLE001
                    hot = None
            else:
                try:
                    hot = tuple(_tok(scratch, toks))
                except Exception:  # noqa: BLE001
                    hot = None
    return ops


def _tok(doc: Any, toks: List[str]) -> List[Any]:
    out: List[Any] = []
    node = doc
    for t in toks:
        if isinstance(node, list):
            i = int(t)
            out.append(i)
            node = node[i]
        else:
            out.append(t)
            node = node[t]
    return out


def make_failing(rng: random.Random, ops: List[Dict[str, Any]]) -> Tuple[List[Dict[str, Any]], int]:
    """Insert one op that fails (failing test / missing target) at a random position."""
    k = rng.randint(0, len(ops))
    bad = rng.choice(
        [
            {"op": "test", "path": "", "value": "__no_such_value__"},
            {"op": "remove", "path": "/__missing__"},
            {"op": "replace", "path": "/__missing__/x", "value": 1},
            {"op": "copy", "from": "/__missing__", "path": "/a"},
        ]
    )
    return ops[:k] + [bad] + ops[k:], k
