"""Core of the simulator: seeds, the choice list, the event log, verdicts.

One integer decides everything.  ``VERIF_SEED`` -> per-run seed -> three
string-seeded PRNG streams (``gen``, ``sched``, ``fault``).  String seeding of
``random.Random`` goes through SHA-512 and is therefore independent of
``PYTHONHASHSEED`` and of the process.

Nothing in this module reads a clock or iterates a set.
"""
from __future__ import annotations

import hashlib
import json
import random
from typing import Any
from typing import Dict
from typing import List
from typing import Optional
from typing import Sequence

DEFAULT_SEED = 20261004


def derive_seed(base: int, prop: str, config: str, index: int) -> int:
    """Seed of run *index* of configuration *config* of property *prop*."""
    h = hashlib.sha256(f"{base}:{prop}:{config}:{index}".encode()).digest()
    return int.from_bytes(h[:8], "big")


def stream(seed: int, label: str) -> random.Random:
    """An independent PRNG stream for one run."""
    return random.Random(f"{seed}:{label}")


class HarnessError(Exception):
    """Something went wrong inside the verification machinery itself."""


class Violation(Exception):
    """A property clause was violated by the code under simulation."""

    def __init__(self, clause: str, message: str, signature: str = "") -> None:
        super().__init__(f"{clause}: {message}")
        self.clause = clause
        self.message = message
        # A short, stable description of the failing shape.  Used to match
        # entries of KNOWN_FINDINGS.txt; never used to decide a verdict.
        self.signature = signature or clause


class Chooser:
    """The schedule-and-fault trace of one run.

    ``choose(n, label)`` returns an int in ``range(n)``.  Index 0 is always the
    least disruptive alternative (keep running the same client / FIFO head / no
    delay / no fault).  In record mode the value is drawn from the ``sched``
    stream with probability ``1 - p`` of being 0; in replay mode it is read back
    from the recorded list and once the list is exhausted the answer is 0, so
    truncating or zeroing the list gives a simpler schedule that is still valid.
    """

    __slots__ = ("rng", "replay", "pos", "recorded", "p", "nonzero")

    def __init__(
        self,
        seed: int,
        replay: Optional[Sequence[int]] = None,
        p: float = 0.35,
    ) -> None:
        self.rng = stream(seed, "sched")
        self.replay = list(replay) if replay is not None else None
        self.pos = 0
        self.recorded: List[int] = []
        self.p = p
        self.nonzero = 0

    def choose(self, n: int, label: str = "", p: Optional[float] = None) -> int:
        if n <= 1:
            return 0
        if self.replay is not None:
            if self.pos < len(self.replay):
                v = self.replay[self.pos] % n
            else:
                v = 0
            self.pos += 1
        else:
            pp = self.p if p is None else p
            if self.rng.random() < pp:
                v = 1 + self.rng.randrange(n - 1)
            else:
                v = 0
        self.recorded.append(v)
        if v:
            self.nonzero += 1
        return v

    def trimmed(self) -> List[int]:
        """The recorded list without its trailing zeros (they are implied)."""
        out = list(self.recorded)
        while out and out[-1] == 0:
            out.pop()
        return out


class EventLog:
    """Ordered simulator events, stamped with a global sequence number."""

    __slots__ = ("events", "keep", "_h", "n")

    def __init__(self, keep: bool = False) -> None:
        self.events: List[str] = []
        self.keep = keep
        self._h = hashlib.sha256()
        self.n = 0

    def add(self, *parts: Any) -> None:
        line = f"{self.n} " + " ".join(_fmt(p) for p in parts)
        self.n += 1
        self._h.update(line.encode("utf-8", "surrogatepass"))
        self._h.update(b"\n")
        if self.keep:
            self.events.append(line)

    def digest(self) -> str:
        return self._h.hexdigest()


def _fmt(p: Any) -> str:
    if isinstance(p, str):
        return p
    if isinstance(p, float):
        return f"{p:.6f}"
    if isinstance(p, (int, bool)) or p is None:
        return str(p)
    return jdump(p)


def jdump(v: Any) -> str:
    """Deterministic JSON text (member order kept, no hash-dependent order)."""
    return json.dumps(v, ensure_ascii=True, separators=(",", ":"), default=_default)


def _default(o: Any) -> Any:
    un = getattr(o, "__sim_unwrap__", None)
    if un is not None:
        return un()
    if isinstance(o, tuple):
        return list(o)
    from collections.abc import Mapping, Sequence as Seq

    if isinstance(o, Mapping):
        return dict(o)
    if isinstance(o, Seq) and not isinstance(o, (str, bytes)):
        return list(o)
    return repr(type(o).__name__)


def unwrap(v: Any) -> Any:
    """Plain JSON value behind a (possibly wrapped) simulated container."""
    un = getattr(v, "__sim_unwrap__", None)
    if un is not None:
        return un()
    if isinstance(v, dict):
        return {k: unwrap(x) for k, x in v.items()}
    if isinstance(v, (list, tuple)):
        return [unwrap(x) for x in v]
    return v


def tj(v: Any) -> Any:
    """Typed-JSON canonical form: equal iff same JSON value *and* same type.

    ``True`` differs from ``1`` and ``1`` from ``1.0``.  Object member order is
    ignored (JSON equality), array order is kept.
    """
    un = getattr(v, "__sim_unwrap__", None)
    if un is not None:
        v = un()
    if v is None:
        return ("n",)
    if isinstance(v, bool):
        return ("b", v)
    if isinstance(v, int):
        return ("i", v)
    if isinstance(v, float):
        return ("f", repr(v))
    if isinstance(v, str):
        return ("s", v)
    if isinstance(v, dict):
        return ("o", tuple(sorted(((str(k), tj(x)) for k, x in v.items()))))
    if isinstance(v, (list, tuple)):
        return ("l", tuple(tj(x) for x in v))
    # Mapping / Sequence look-alikes from the library (e.g. NodeList)
    try:
        from collections.abc import Mapping, Sequence as Seq

        if isinstance(v, Mapping):
            return ("o", tuple(sorted(((str(k), tj(x)) for k, x in v.items()))))
        if isinstance(v, Seq):
            return ("l", tuple(tj(x) for x in v))
    except Exception:  # pragma: no cover
        pass
    return ("?", type(v).__name__, repr(v))


def short(v: Any, n: int = 160) -> str:
    s = v if isinstance(v, str) else jdump(v)
    return s if len(s) <= n else s[: n - 3] + "..."


class Outcome:
    """Result of executing one RunSpec."""

    __slots__ = (
        "violation",
        "digest",
        "choices",
        "stats",
        "nontrivial",
        "sched_sig",
        "states",
        "events",
        "sim_time",
        "steps",
    )

    def __init__(self) -> None:
        self.violation: Optional[Dict[str, str]] = None
        self.digest = ""
        self.choices: List[int] = []
        self.stats: Dict[str, int] = {}
        self.nontrivial = False
        self.sched_sig = ""
        self.states: List[str] = []
        self.events: List[str] = []
        self.sim_time = 0.0
        self.steps = 0


class Ctx:
    """Everything one run of a check needs: chooser, log, counters."""

    def __init__(self, spec: Dict[str, Any], keep_events: bool = False) -> None:
        self.spec = spec
        self.seed = int(spec["seed"])
        self.chooser = Chooser(
            self.seed, spec.get("choices"), p=float(spec.get("knobs", {}).get("p_sched", 0.35))
        )
        self.log = EventLog(keep=keep_events)
        self.stats: Dict[str, int] = {}
        self.states: Dict[str, None] = {}
        self.switches: List[int] = []
        self.sim_time = 0.0
        self.steps = 0
        self.nontrivial = False

    def choose(self, n: int, label: str = "", p: Optional[float] = None) -> int:
        return self.chooser.choose(n, label, p)

    def count(self, key: str, n: int = 1) -> None:
        self.stats[key] = self.stats.get(key, 0) + n

    def state(self, *parts: Any) -> None:
        self.states["|".join(str(p) for p in parts)] = None

    def switch(self, client: int) -> None:
        self.switches.append(client)

    def sched_sig(self) -> str:
        h = hashlib.sha256(",".join(map(str, self.switches)).encode()).hexdigest()
        return h[:16]


CHILD_UNUSABLE = [False]  # set once a reference child of this process did not answer


def in_child(fn: Any, timeout: float = 30.0) -> Any:
    """Run ``fn()`` in a forked child of this process and return its (picklable) result.

    Used to compute *references* before the run itself touches process-global state with other
    configurations (a "foreign" environment or patch built with other options): the child sees the
    process as it is now, whatever the run does afterwards cannot reach into the reference.
    """
    import os
    import pickle
    import select
    import signal

    if CHILD_UNUSABLE[0]:
        return fn()
    r, w = os.pipe()
    pid = os.fork()
    if pid == 0:
        try:
            os.close(r)
            try:
                payload = pickle.dumps(("ok", fn()))
            except BaseException as e:  # noqa: BLE001
                payload = pickle.dumps(("err", f"{type(e).__name__}: {e}"))
            with os.fdopen(w, "wb") as f:
                f.write(payload)
        finally:
            os._exit(0)
    os.close(w)
    chunks = []
    timed_out = False
    try:
        with os.fdopen(r, "rb") as f:
            while True:
                ready, _, _ = select.select([f], [], [], timeout)
                if not ready:
                    timed_out = True
                    break
                b = f.read(65536)
                if not b:
                    break
                chunks.append(b)
    finally:
        if timed_out:
            try:
                os.kill(pid, signal.SIGKILL)
            except ProcessLookupError:
                pass
        try:
            os.waitpid(pid, 0)
        except ChildProcessError:
            pass
    if timed_out:
        # A forked child inherits the library's objects but not its threads: code under test that keeps a helper
        # thread (a lazily created executor, say) waits for ever in the child.  That is this harness's way of
        # isolating a reference, not the library's fault: fall back to computing in this process (less isolation,
        # never a wrong verdict about correct code) and stop forking for the rest of this process.
        CHILD_UNUSABLE[0] = True
        return fn()
    kind, val = pickle.loads(b"".join(chunks))
    if kind == "err":
        raise HarnessError(f"reference child failed: {val}")
    return val
