"""Seeded JSONPath query generator: typed (Logical / Value / Nodes) -> text.

Most generated texts compile; every text is compiled once in a scratch
environment by the caller (``compiles``) and the refused ones are dropped and
counted -- compile-time rejection is not the business of the simulated checks.
"""
from __future__ import annotations

import json
import random
import re
from typing import Any
from typing import Dict
from typing import List
from typing import Optional
from typing import Tuple

from . import gen_json

_KEY_RE = re.compile(r"^[\u0080-￿a-zA-Z_][\u0080-￿a-zA-Z0-9_-]*$")
_RESERVED = {
    "and", "or", "not", "in", "true", "false", "True", "False", "nil", "Nil", "null", "Null",
    "none", "None", "contains", "undefined", "missing",
}
_CTRL_RE = re.compile(r"[\x00-\x1f]")

REGEXES = ["a.*", "a", ".*b.*", "[a-c]+", "x y", "1", ".", "a|b", "A.*", "(", "ab?c"]
TYPE_NAMES = ["string", "number", "array", "object", "boolean", "null", "undefined", "int", "float", "list", "dict", "str"]


def default_opts(rng: random.Random) -> Dict[str, Any]:
    return {
        "p_filter": rng.choice([0.15, 0.3, 0.5]),
        "p_ext": rng.choice([0.0, 0.15, 0.3]),
        "p_follow": 0.7,
        "p_root": rng.choice([0.15, 0.3]),
        "p_ctx": rng.choice([0.0, 0.15]),
        "max_filter_depth": rng.choice([1, 2, 2, 3]),
        "cache_bias": False,
    }


class QGen:
    def __init__(self, rng: random.Random, doc: Any, ctx_doc: Any = None, opts: Optional[Dict[str, Any]] = None):
        self.rng = rng
        self.doc = doc
        self.ctx_doc = ctx_doc if ctx_doc is not None else {}
        self.opts = opts or default_opts(rng)
        self.locs = gen_json.walk(doc)

    # ------------------------------------------------------------- names
    def quote(self, name: str) -> str:
        if self.rng.random() < 0.5:
            return json.dumps(name, ensure_ascii=self.rng.random() < 0.3)
        s = json.dumps(name, ensure_ascii=False)[1:-1].replace('\\"', '"').replace("'", "\\'")
        return f"'{s}'"

    def name_segment(self, name: str) -> str:
        r = self.rng.random()
        plain = bool(_KEY_RE.match(name)) and name not in _RESERVED
        if plain and r < 0.5:
            return f".{name}"
        if plain and r < 0.6 and self.opts["p_ext"] > 0:
            return f"[{name}]"
        if _CTRL_RE.search(name):
            return f"[{json.dumps(name)}]"
        return f"[{self.quote(name)}]"

    def name_selector(self, name: str) -> str:
        if _CTRL_RE.search(name):
            return json.dumps(name)
        return self.quote(name)

    def some_name(self, pool: List[str]) -> str:
        if pool and self.rng.random() < self.opts["p_follow"]:
            return self.rng.choice(pool)
        return self.rng.choice(gen_json.KEYS_PLAIN + gen_json.KEYS_ODD[:6])

    def some_index(self, n: int) -> int:
        if self.rng.random() < 0.02:
            return self.rng.choice([9007199254740991, -9007199254740991, 100, -100])
        if n and self.rng.random() < self.opts["p_follow"]:
            return self.rng.choice([self.rng.randrange(n), -1 - self.rng.randrange(n)])
        return self.rng.choice([0, 1, 2, -1, -2, 5, -7])

    def slice_text(self) -> str:
        def b() -> str:
            return self.rng.choice(["", "", "0", "1", "2", "-1", "-2", "5", "-5", "3", "100", "-100"])

        sp = self.rng.choice(["", "", "", " "])
        s = f"{b()}{sp}:{sp}{b()}"
        if self.rng.random() < 0.5:
            s += ":" + self.rng.choice(["", "1", "2", "-1", "-2", "0", "3", "5", "-5", "100", "-100"])
        return s

    # ------------------------------------------------------------- segments
    def children_of(self, v: Any) -> List[Any]:
        if isinstance(v, dict):
            return list(v.values())
        if isinstance(v, list):
            return list(v)
        return []

    def selector(self, node: Any, depth: int) -> str:
        """One selector (inside brackets) plausible for *node*."""
        r = self.rng.random()
        names = list(node.keys()) if isinstance(node, dict) else []
        n = len(node) if isinstance(node, list) else 0
        if r < self.opts["p_filter"] and depth < self.opts["max_filter_depth"]:
            return "?" + self.logical(self.children_of(node), depth + 1, 0)
        r = self.rng.random()
        if r < 0.3:
            return self.name_selector(self.some_name(names))
        if r < 0.55:
            return str(self.some_index(n))
        if r < 0.75:
            return self.slice_text()
        if r < 0.9 or self.opts["p_ext"] == 0:
            return "*"
        return "~"

    def segment(self, node: Any, depth: int, exact_key: Any = None) -> str:
        r = self.rng.random()
        desc = ""
        if r < 0.12:
            desc = ".."
        # exact step towards a chosen location
        if exact_key is not None and self.rng.random() < 0.55:
            if isinstance(exact_key, str):
                seg = self.name_segment(exact_key)
                if desc:
                    seg = seg[1:] if seg.startswith(".") else seg
                return desc + seg
            return f"{desc}[{exact_key}]"
        r = self.rng.random()
        if r < 0.15:
            return (desc or ".") + "*" if not desc else desc + "*"
        if r < 0.22 and self.opts["p_ext"] > 0 and not desc:
            return ".~"
        k = 1 if self.rng.random() < 0.75 else self.rng.randint(2, 3)
        sels = [self.selector(node, depth) for _ in range(k)]
        if exact_key is not None and self.rng.random() < 0.5:
            sels[self.rng.randrange(len(sels))] = (
                self.name_selector(exact_key) if isinstance(exact_key, str) else str(exact_key)
            )
        sep = self.rng.choice([",", ", ", " , "])
        return f"{desc}[{sep.join(sels)}]"

    def path_body(self, root: Any, depth: int, max_len: int = 4) -> str:
        """Segments (without the root identifier) relative to *root*."""
        locs = gen_json.walk(root) if root is not self.doc else self.locs
        target = self.rng.choice(locs)[0] if locs else ()
        target = target[: max_len]
        out = []
        node = root
        for key in target:
            out.append(self.segment(node, depth, exact_key=key))
            try:
                node = node[key]
            except Exception:  # noqa: BLE001
                node = None
        if self.rng.random() < 0.35 and len(out) < max_len:
            out.append(self.segment(node, depth))
        return "".join(out)

    # ------------------------------------------------------------- filters
    def singular(self, samples: List[Any], allow_root: bool = True) -> str:
        r = self.rng.random()
        if allow_root and r < self.opts["p_root"]:
            return "$" + self.singular_body(self.doc)
        if allow_root and r < self.opts["p_root"] + self.opts["p_ctx"]:
            return "_" + self.singular_body(self.ctx_doc)
        s = self.rng.choice(samples) if samples else None
        return "@" + self.singular_body(s, allow_empty=True)

    def singular_body(self, node: Any, allow_empty: bool = False) -> str:
        out = []
        depth = self.rng.choice([0, 1, 1, 1, 2]) if allow_empty else self.rng.choice([1, 1, 2])
        for _ in range(depth):
            if isinstance(node, dict):
                name = self.some_name(list(node.keys()))
                out.append(self.name_segment(name))
                node = node.get(name)
            elif isinstance(node, list):
                i = self.some_index(len(node))
                out.append(f"[{i}]")
                try:
                    node = node[i]
                except IndexError:
                    node = None
            else:
                if self.rng.random() < 0.5:
                    out.append(self.name_segment(self.some_name([])))
                else:
                    out.append(f"[{self.some_index(0)}]")
        return "".join(out)

    def nodes(self, samples: List[Any], depth: int) -> str:
        r = self.rng.random()
        if r < self.opts["p_root"]:
            return "$" + self.path_body(self.doc, depth, 3)
        if r < self.opts["p_root"] + self.opts["p_ctx"]:
            return "_" + self.path_body(self.ctx_doc, depth, 2)
        s = self.rng.choice(samples) if samples else None
        body = self.path_body(s, depth, 2) if isinstance(s, (dict, list)) else self.rng.choice(["", ".*", "..*", "[0]", ".a", "[*]"])
        if not body and self.rng.random() < 0.5:
            body = self.rng.choice([".*", "..*", "[*]", "[0:2]"])
        return "@" + body

    def literal(self) -> str:
        r = self.rng.random()
        if r < 0.3:
            return self.rng.choice(["0", "1", "2", "-1", "10", "3", "1e1", "2E0"])
        if r < 0.4:
            return self.rng.choice(["1.5", "1.0", "0.5", "-2.5", "1e-1"])
        if r < 0.7:
            return self.quote(self.rng.choice(["a", "abc", "", "1", "x y", "b", "string", "number", "q'uote", 'dq"uote', "é", "ctl\n\x00",
                                               "back\\slash", "\U0001f600"]))
        if r < 0.8:
            return self.rng.choice(["true", "false", "True", "False"])
        if r < 0.9:
            return self.rng.choice(["null", "nil", "None", "Null"])
        return self.rng.choice(["undefined", "missing"]) if self.opts["p_ext"] > 0 else "null"

    def list_literal(self) -> str:
        n = self.rng.randint(0, 3)
        items = []
        for _ in range(n):
            lit = self.literal()
            if lit in ("undefined", "missing"):
                lit = "null"
            items.append(lit)
        return "[" + ", ".join(items) + "]"

    def value(self, samples: List[Any], depth: int, fdepth: int) -> str:
        r = self.rng.random()
        if r < 0.45:
            return self.singular(samples)
        if r < 0.7:
            return self.literal()
        if r < 0.76 and self.opts["p_ext"] > 0:
            return "#"
        if fdepth >= 2:
            return self.literal()
        r = self.rng.random()
        if r < 0.3:
            return f"length({self.value(samples, depth, fdepth + 1)})"
        if r < 0.55:
            return f"count({self.nodes(samples, depth)})"
        if r < 0.75:
            return f"value({self.nodes(samples, depth)})"
        fn = self.rng.choice(["typeof", "type"])
        return f"{fn}({self.nodes(samples, depth)})"

    def comparison(self, samples: List[Any], depth: int) -> str:
        op = self.rng.choice(["==", "==", "!=", "<", "<=", ">", ">=", "<>" if self.opts["p_ext"] > 0 else "=="])
        left = self.value(samples, depth, 0)
        right = self.value(samples, depth, 0)
        if self.opts["cache_bias"]:
            # one per-node side, one document-independent side
            if self.rng.random() < 0.8:
                left = self.rng.choice(["@" + self.singular_body(self.rng.choice(samples) if samples else None, True), "#"]) \
                    if self.opts["p_ext"] > 0 or True else left
                if left == "#" and self.opts["p_ext"] == 0:
                    left = "@"
                right = self.cacheable_value(depth)
                if self.rng.random() < 0.5:
                    left, right = right, left
        sp = self.rng.choice([" ", " ", ""])
        return f"{left}{sp}{op}{sp}{right}"

    def cacheable_value(self, depth: int) -> str:
        r = self.rng.random()
        if r < 0.45:
            return "$" + self.singular_body(self.doc)
        if r < 0.7:
            return "_" + self.singular_body(self.ctx_doc)
        if r < 0.8:
            return f"length($" + self.singular_body(self.doc) + ")"
        if r < 0.9:
            return f"count($" + self.path_body(self.doc, depth, 2) + ")"
        return f"value(_" + self.path_body(self.ctx_doc, depth, 2) + ")"

    def logical(self, samples: List[Any], depth: int, ldepth: int) -> str:
        r = self.rng.random()
        if ldepth < 2 and r < 0.3:
            op = self.rng.choice(["&&", "||", "and", "or"])
            a = self.logical(samples, depth, ldepth + 1)
            b = self.logical(samples, depth, ldepth + 1)
            if self.opts["cache_bias"] and self.rng.random() < 0.5:
                b = self.cacheable_logical(depth)
            s = f"{a} {op} {b}"
            return f"({s})" if self.rng.random() < 0.4 else s
        if ldepth < 2 and r < 0.4:
            inner = self.logical(samples, depth, ldepth + 1)
            neg = self.rng.choice(["!", "not "])
            return f"{neg}({inner})" if (" " in inner or self.rng.random() < 0.3) else f"{neg}{inner}"
        if self.opts.get("p_str_lit") and self.rng.random() < self.opts["p_str_lit"]:
            # a comparison with a string literal that needs escapes
            lit = self.rng.choice(["q'uote", 'dq"uote', "é", "ctl\n", "back\\slash", "\U0001f600", "\u00e9\u0301"])
            return f"{self.singular(samples)} {self.rng.choice(['==', '!='])} {self.quote(lit)}"
        if self.opts.get("p_regex_fn") and self.rng.random() < self.opts["p_regex_fn"]:
            # regex-heavy profile: many match()/search() calls with different patterns on one environment
            fn = self.rng.choice(["match", "search"])
            arg = "@" if self.rng.random() < 0.6 else self.singular(samples)
            return f"{fn}({arg}, {self.quote(self.rng.choice(REGEXES))})"
        if self.opts.get("p_trip") and self.rng.random() < self.opts["p_trip"]:
            # the simulator's fault seam inside filter evaluation (jpsim/tripwire.py)
            return f"tripwire({self.singular(samples)})"
        r = self.rng.random()
        if r < 0.5:
            return self.comparison(samples, depth)
        if r < 0.68:
            return self.nodes(samples, depth)  # existence test
        if r < 0.76:
            fn = self.rng.choice(["match", "search"])
            pat = self.rng.choice(REGEXES)
            arg = self.singular(samples)
            return f"{fn}({arg}, {self.quote(pat)})"
        if r < 0.82 and self.opts["p_ext"] > 0:
            fn = self.rng.choice(["isinstance", "is"])
            return f"{fn}({self.nodes(samples, depth)}, {self.quote(self.rng.choice(TYPE_NAMES))})"
        if r < 0.9 and self.opts["p_ext"] > 0:
            k = self.rng.random()
            if k < 0.3:
                return f"{self.singular(samples)} in {self.list_literal()}"
            if k < 0.45:
                return f"{self.literal()} in {self.singular(samples)}"
            if k < 0.6:
                return f"{self.singular(samples)} contains {self.literal()}"
            if k < 0.7:
                return f"{self.list_literal()} contains {self.singular(samples)}"
            # non-singular operands: a nodelist of several nodes on either side
            if k < 0.85:
                return f"{self.literal()} in {self.nodes(samples, depth)}"
            return f"{self.nodes(samples, depth)} contains {self.literal()}"
        if r < 0.95 and self.opts["p_ext"] > 0:
            flags = self.rng.choice(["", "", "i", "s", "im", "a"])
            pat = self.rng.choice([p for p in REGEXES if "/" not in p and p != "("])
            return f"{self.singular(samples)} =~ /{pat}/{flags}"
        return self.comparison(samples, depth)

    def cacheable_logical(self, depth: int) -> str:
        r = self.rng.random()
        if r < 0.4:
            return "$" + self.path_body(self.doc, depth, 2)
        if r < 0.6:
            return "_" + self.path_body(self.ctx_doc, depth, 2)
        op = self.rng.choice(["==", "!=", "<", ">"])
        return f"{self.cacheable_value(depth)} {op} {self.literal()}"

    # ------------------------------------------------------------- whole queries
    def simple(self) -> str:
        if self.opts.get("p_flat") and self.rng.random() < self.opts["p_flat"]:
            # a filter applied right at the root (or to every descendant): it certainly gets evaluated
            lead = self.rng.choice(["$", "$", "$.."])
            kids = self.children_of(self.doc)
            if lead == "$..":
                kids = [v for _, v in self.locs[1:]] or kids
            tail = self.rng.choice(["", "", ".*", "[0]"])
            return f"{lead}[?{self.logical(kids, 1, 0)}]{tail}"
        if self.opts["p_ext"] > 0 and self.rng.random() < 0.06:
            # fake root: the first segment applies to [document]
            first = self.rng.choice(["[0]", "[*]", "[?" + self.logical([self.doc], 1, 0) + "]", "..*"])
            return "^" + first + (self.path_body(self.doc, 0, 2) if first in ("[0]", "[*]") else "")
        body = self.path_body(self.doc, 0)
        ws = " " if self.rng.random() < 0.05 else ""
        return "$" + ws + body

    def compound(self, max_ops: int = 4, ops: str = "|&") -> str:
        n = self.rng.randint(1, max_ops)
        out = self.simple()
        for _ in range(n):
            out += f" {self.rng.choice(ops)} " + self.simple()
        return out

    def query(self, p_compound: float = 0.2) -> str:
        if self.rng.random() < p_compound:
            return self.compound()
        return self.simple()


def compiles(env: Any, text: str) -> bool:
    try:
        env.compile(text)
    except Exception:  # noqa: BLE001
        return False
    return True


def gen_queries(
    rng: random.Random,
    env: Any,
    doc: Any,
    n: int,
    ctx_doc: Any = None,
    opts: Optional[Dict[str, Any]] = None,
    p_compound: float = 0.2,
    must_filter: bool = False,
    stats: Optional[Dict[str, int]] = None,
) -> List[str]:
    g = QGen(rng, doc, ctx_doc, opts)
    out: List[str] = []
    tries = 0
    while len(out) < n and tries < n * 30:
        tries += 1
        q = g.query(p_compound)
        if must_filter and "?" not in q:
            continue
        if compiles(env, q):
            out.append(q)
        elif stats is not None:
            stats["rejected"] = stats.get("rejected", 0) + 1
    while len(out) < n:
        out.append("$[?@ == $.a]" if must_filter else "$..*")
    return out
