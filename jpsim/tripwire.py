"""A filter function extension the simulator controls: a *fault seam inside filter evaluation*.

``tripwire(v)`` is a well-typed, stateless function extension (ValueType -> LogicalType, the
documented extension point).  It raises ``JSONPathTypeError`` -- the one error family a filter may
raise at evaluation time -- when its argument is the trigger value, and is a pure predicate
otherwise.  No built-in function raises at evaluation time, so without it the error paths of
``Filter.resolve`` / ``resolve_async`` (and whatever state an evaluation that died there leaves
behind) are unreachable.
"""
from __future__ import annotations

from typing import Any

from jsonpath.exceptions import JSONPathTypeError
from jsonpath.function_extensions import ExpressionType
from jsonpath.function_extensions import FilterFunction


class Tripwire(FilterFunction):
    arg_types = [ExpressionType.VALUE]
    return_type = ExpressionType.LOGICAL

    def __call__(self, v: Any) -> bool:
        if (isinstance(v, int) and not isinstance(v, bool) and v == 1) or v == "abc":
            raise JSONPathTypeError("tripwire: unacceptable value")
        return isinstance(v, (str, int, float)) and not isinstance(v, bool)


def register(env: Any) -> Any:
    env.function_extensions["tripwire"] = Tripwire()
    return env
