"""A filter function extension the simulator controls: a *fault seam inside filter evaluation*.

``tripwire(v)`` is a well-typed, stateless function extension (ValueType -> LogicalType, the
documented extension point).  It raises ``JSONPathTypeError`` -- the one error family a filter may
raise at evaluation time -- when its argument is the trigger value, and is a pure predicate
otherwise.  No built-in function raises at evaluation time, so without it the error paths of
``Filter.resolve`` / ``resolve_async`` (and whatever state an evaluation that died there leaves
behind) are unreachable.
"""
from __future__ import annotations

from typing import Any

from jsonpath.exceptions import JSONPathTypeError
from jsonpath.function_extensions import ExpressionType
from jsonpath.function_extensions import FilterFunction


class Tripwire(FilterFunction):
    arg_types = [ExpressionType.VALUE]
    return_type = ExpressionType.LOGICAL

    def __init__(self, variant: bool = False) -> None:
        # the variant (registered on "foreign" environments only) trips on other values and answers
        # the opposite: if one environment's function table leaks into another, results change
        self.variant = variant

    def __call__(self, v: Any) -> bool:
        if self.variant:
            if (isinstance(v, int) and not isinstance(v, bool) and v == 2) or v == "a":
                raise JSONPathTypeError("tripwire (variant): unacceptable value")
            return not (isinstance(v, (str, int, float)) and not isinstance(v, bool))
        if (isinstance(v, int) and not isinstance(v, bool) and v == 1) or v == "abc":
            raise JSONPathTypeError("tripwire: unacceptable value")
        return isinstance(v, (str, int, float)) and not isinstance(v, bool)


def register(env: Any, variant: bool = False) -> Any:
    env.function_extensions["tripwire"] = Tripwire(variant)
    return env


def foreign_environment(filter_caching: bool = True) -> Any:
    """An environment configured differently from the ones under test: other options, other function table.

    Building and using it must not change what any *other* environment does."""
    import jsonpath
    from jsonpath import function_extensions

    env = jsonpath.JSONPathEnvironment(filter_caching=filter_caching, unicode_escape=False)
    register(env, variant=True)
    env.function_extensions["typeof"] = function_extensions.TypeOf(single_number_type=False)
    env.function_extensions["type"] = env.function_extensions["typeof"]
    return env
