"""Cooperative locks for the thread simulator.

``ThreadSched`` runs exactly one of its client threads at a time and pre-empts
them at source lines.  If the code under simulation takes a ``threading.Lock``
and is pre-empted while holding it, the next thread would block on that lock
for ever, because its holder is parked.  ``install()`` (called by ``bin/check``
before the library is imported) replaces the ``threading.Lock`` and
``threading.RLock`` factories by ones that return thin wrappers: outside a
simulated client thread they delegate to the real lock unchanged; inside one, a
blocking ``acquire`` that cannot succeed hands the baton to another client and
retries when it gets the baton back.  A cycle of blocked clients is reported by
the scheduler as a deadlock.
"""
from __future__ import annotations

import threading
from typing import Any
from typing import Optional

_REAL_LOCK = threading.Lock
_REAL_RLOCK = threading.RLock
ACTIVE: Optional[Any] = None  # the running ThreadSched, if any
_installed = False


class CoopLock:
    __slots__ = ("_real",)

    def __init__(self, real: Any) -> None:
        self._real = real

    def acquire(self, blocking: bool = True, timeout: float = -1) -> bool:
        sched = ACTIVE
        if sched is None or not sched.is_client_thread():
            return self._real.acquire(blocking, timeout)
        spins = 0
        timed = timeout is not None and timeout >= 0
        while True:
            if self._real.acquire(False):
                return True
            if not blocking:
                return False
            spins += 1
            if not sched.blocked_on_lock(spins, timed):
                return False  # the (simulated) timeout elapsed

    # what threading.Condition asks of its lock; cooperative like acquire()
    def _release_save(self) -> Any:
        rs = getattr(self._real, "_release_save", None)
        if rs is not None:
            return rs()  # RLock: (count, owner)
        self._real.release()
        return None

    def _acquire_restore(self, state: Any) -> None:
        if state is None:
            self.acquire()
            return
        for _ in range(int(state[0])):
            self.acquire()

    def _is_owned(self) -> bool:
        io = getattr(self._real, "_is_owned", None)
        if io is not None:
            return bool(io())
        if self._real.acquire(False):
            self._real.release()
            return False
        return True

    def release(self) -> None:
        self._real.release()

    def locked(self) -> bool:
        return self._real.locked()

    def __enter__(self) -> bool:
        return self.acquire()

    def __exit__(self, *a: Any) -> None:
        self._real.release()

    def __getattr__(self, name: str) -> Any:
        return getattr(self._real, name)

    def __repr__(self) -> str:
        return f"<CoopLock {self._real!r}>"


_INTERNAL = ("jpsim.", "concurrent.", "multiprocessing", "asyncio", "logging", "queue")


def _internal_caller() -> bool:
    """Locks the interpreter's own threading machinery (or this simulator) creates stay real locks:
    `threading._after_fork` re-creates `_active_limbo_lock` through the patched factory in every forked
    worker, and a finishing client thread takes it in `Thread._delete` -- that must never be cooperative.

    A lock `threading` creates *on behalf of* other code (the RLock inside a `Condition()` the library
    makes and uses as a lock) belongs to that code: the decision is made by the first frame outside
    `threading`."""
    import sys

    try:
        f = sys._getframe(2)
    except ValueError:
        return False
    mod = f.f_globals.get("__name__", "")
    if mod != "threading":
        return mod.startswith(_INTERNAL)
    while f is not None and f.f_globals.get("__name__", "") == "threading":
        f = f.f_back
    if f is None:
        return True  # thread bootstrap: nothing but threading on the stack
    mod = f.f_globals.get("__name__", "")
    return not mod.startswith("jsonpath")


def _lock() -> Any:
    if _internal_caller():
        return _REAL_LOCK()
    return CoopLock(_REAL_LOCK())


def _rlock() -> Any:
    if _internal_caller():
        return _REAL_RLOCK()
    return CoopLock(_REAL_RLOCK())


def _alloc() -> Any:
    """`threading._allocate_lock`: the waiter locks of Condition.wait (and through it Event, Semaphore,
    Barrier).  Cooperative only when the waiting is done on behalf of the library under simulation."""
    if _internal_caller():
        return _REAL_LOCK()
    return CoopLock(_REAL_LOCK())


def install() -> None:
    global _installed
    if _installed:
        return
    threading.Lock = _lock  # type: ignore[assignment,misc]
    threading.RLock = _rlock  # type: ignore[assignment,misc]
    threading._allocate_lock = _alloc  # type: ignore[attr-defined]
    _installed = True
