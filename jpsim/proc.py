"""Process stub: run ``python -m jsonpath`` in-process behind a simulated process boundary
(argv, std streams, exit status, working directory)."""
from __future__ import annotations

import io
import os
import shutil
import subprocess
import sys
import tempfile
import traceback
from typing import Any
from typing import Dict
from typing import List
from typing import Optional

from .fs import SimFS



class ProcResult:
    __slots__ = ("status", "stdout", "stderr", "escaped")

    def __init__(self, status: int, stdout: bytes, stderr: str, escaped: Optional[str]) -> None:
        self.status = status
        self.stdout = stdout
        self.stderr = stderr
        self.escaped = escaped


class _Named(io.BytesIO):
    """The byte buffer behind a standard stream: it has a name, like the interpreter's, and what was
    written to it can still be read after the program closed the stream."""

    def __init__(self, data: bytes = b"", name: str = "") -> None:
        super().__init__(data)
        self.name = name
        self._final: Optional[bytes] = None

    def close(self) -> None:
        if not self.closed:
            self._final = self.getvalue()
        super().close()

    def value(self) -> bytes:
        return self._final if self.closed and self._final is not None else self.getvalue()


_DIR: List[str] = []  # "<pid>|<scratch directory>" of this process


def _scratch_dir() -> str:
    """The simulated process's working directory: one scratch directory per harness process, emptied before
    every invocation, removed at exit (forked workers run their exit handlers, see runner._exit_child)."""
    import atexit

    if not _DIR or _DIR[0].split("|")[0] != str(os.getpid()):
        d = tempfile.mkdtemp(prefix="jpsim-cwd-", dir=os.environ.get("TMPDIR") or tempfile.gettempdir())
        _DIR[:] = [f"{os.getpid()}|{d}"]
        atexit.register(shutil.rmtree, d, True)
    d = _DIR[0].split("|", 1)[1]
    for name in os.listdir(d):
        path = os.path.join(d, name)
        if os.path.isdir(path) and not os.path.islink(path):
            shutil.rmtree(path, ignore_errors=True)
        else:
            os.unlink(path)
    return d


def run_cli(argv: List[str], stdin_bytes: bytes, fs: SimFS) -> ProcResult:
    """One simulated process: ``python -m jsonpath <argv>``.

    The program is what the real command runs -- ``jsonpath/__main__.py`` executed as ``__main__`` -- with a
    process of its own as far as it can tell: `sys.argv`, the three standard streams (named, with `.buffer`,
    closable), a working directory that holds exactly the files of *fs* (as real files, so `open`, `pathlib`,
    `os.path.exists`, `os.replace` ... all see the same thing), freshly imported `jsonpath.cli` /
    `jsonpath.__main__` modules and no logging handlers left over from an earlier invocation.  Afterwards
    the directory's files are read back into *fs*."""
    import gc
    import logging
    import runpy
    import warnings

    from .core import HarnessError

    d = _scratch_dir()
    for name, data in fs.files.items():
        with open(os.path.join(d, name), "wb") as f:
            f.write(data)
    saved = (sys.argv, sys.stdin, sys.stdout, sys.stderr)
    cwd = os.getcwd()
    for mod in ("jsonpath.cli", "jsonpath.__main__"):
        sys.modules.pop(mod, None)
    saved_log = (logging.root.handlers[:], logging.root.level, logging.root.disabled)
    logging.root.handlers = []
    logging.root.setLevel(logging.WARNING)
    saved_warn = warnings.filters[:]
    out_b = _Named(name="<stdout>")
    err_b = _Named(name="<stderr>")
    stdout = io.TextIOWrapper(out_b, encoding="utf-8", errors="strict", write_through=True)
    stderr = io.TextIOWrapper(err_b, encoding="utf-8", errors="backslashreplace", write_through=True)
    escaped: Optional[str] = None
    status = 0
    try:
        sys.argv = ["json"] + list(argv)
        # like the interpreter on POSIX: no newline translation on stdin
        sys.stdin = io.TextIOWrapper(_Named(stdin_bytes, name="<stdin>"), encoding="utf-8", errors="strict", newline="\n")
        sys.stdout = stdout
        sys.stderr = stderr
        os.chdir(d)
        try:
            runpy.run_module("jsonpath.__main__", run_name="__main__")
        except SystemExit as e:
            code = e.code
            if code is None:
                status = 0
            elif isinstance(code, int):
                status = code
            else:
                _write(stderr, str(code) + "\n")
                status = 1
            traceback.clear_frames(e.__traceback__)
        except HarnessError:
            raise
        except Exception as e:  # noqa: BLE001
            # what the interpreter does with an uncaught exception
            escaped = type(e).__name__
            try:
                traceback.print_exception(type(e), e, e.__traceback__, file=stderr)
            except ValueError:  # the program closed stderr
                pass
            traceback.clear_frames(e.__traceback__)
            status = 1
        # interpreter shutdown flushes the standard streams; a stream the program closed itself is left alone
        for stream in (stdout, stderr):
            try:
                if not stream.closed:
                    stream.flush()
            except Exception:  # noqa: BLE001
                status = 120
    finally:
        os.chdir(cwd)
        sys.argv, sys.stdin, sys.stdout, sys.stderr = saved
        for h in logging.root.handlers:
            try:
                h.close()
            except Exception:  # noqa: BLE001
                pass
        logging.root.handlers, logging.root.level, logging.root.disabled = saved_log[0], saved_log[1], saved_log[2]
        warnings.filters[:] = saved_warn
    # files the program left open are flushed when the process ends: here, when their last reference goes
    names = sorted(os.listdir(d))
    if any(os.path.isfile(os.path.join(d, n)) and os.path.getsize(os.path.join(d, n)) == 0 for n in names):
        gc.collect()
    for name in names:
        path = os.path.join(d, name)
        if os.path.isfile(path):
            with open(path, "rb") as f:
                fs.files[name] = f.read()
    return ProcResult(status, out_b.value(), err_b.value().decode("utf-8", "replace"), escaped)


def _write(stream: Any, text: str) -> None:
    try:
        stream.write(text)
    except ValueError:
        pass


def run_cli_subprocess(
    argv: List[str], stdin_bytes: bytes, files: Dict[str, bytes], repo: str, outputs: List[str]
) -> Dict[str, Any]:
    """The same invocation as a real ``python -m jsonpath`` process in a scratch directory."""
    base = os.environ.get("TMPDIR") or tempfile.gettempdir()
    d = tempfile.mkdtemp(prefix="jpsim-cli-", dir=base)
    try:
        for name, data in files.items():
            with open(os.path.join(d, name), "wb") as f:
                f.write(data)
        env = dict(os.environ)
        env["PYTHONPATH"] = repo
        env["PYTHONIOENCODING"] = "utf-8:strict"
        env["PYTHONUTF8"] = "1"
        env["PYTHONDONTWRITEBYTECODE"] = "1"
        env.pop("PYTHONHASHSEED", None)
        p = subprocess.run(
            [sys.executable, "-m", "jsonpath"] + list(argv),
            input=stdin_bytes,
            capture_output=True,
            cwd=d,
            env=env,
            timeout=120,
        )
        outs: Dict[str, Optional[bytes]] = {}
        for name in outputs:
            path = os.path.join(d, name)
            outs[name] = open(path, "rb").read() if os.path.exists(path) else None
        return {
            "status": p.returncode,
            "stdout": p.stdout,
            "stderr": p.stderr.decode("utf-8", "replace"),
            "files": outs,
        }
    finally:
        shutil.rmtree(d, ignore_errors=True)
