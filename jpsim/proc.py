"""Process stub: run ``jsonpath.cli.main()`` in-process behind a simulated
process boundary (argv, std streams, exit status, file system)."""
from __future__ import annotations

import argparse
import io
import os
import shutil
import subprocess
import sys
import tempfile
import traceback
from typing import Any
from typing import Dict
from typing import List
from typing import Optional

from .fs import SimFS


SIM_NAMES = ("doc.json", "patch.json", "expr.txt", "out.json")


class ProcResult:
    __slots__ = ("status", "stdout", "stderr", "escaped")

    def __init__(self, status: int, stdout: bytes, stderr: str, escaped: Optional[str]) -> None:
        self.status = status
        self.stdout = stdout
        self.stderr = stderr
        self.escaped = escaped


class _Named(io.BytesIO):
    """The byte buffer behind a standard stream; like the interpreter's, it has a name."""

    def __init__(self, data: bytes = b"", name: str = "") -> None:
        super().__init__(data)
        self.name = name


def run_cli(argv: List[str], stdin_bytes: bytes, fs: SimFS) -> ProcResult:
    """One simulated ``python -m jsonpath <argv>`` invocation.

    The package's ``__main__`` module is executed the way ``python -m`` would (``runpy``), so the stub does
    not depend on *how* the entry point turns its outcome into an exit status (``sys.exit(1)`` inside a
    handler, or ``sys.exit(main())`` at the top).  Files are reachable through ``argparse.FileType`` and
    through ``open`` / ``io.open`` alike: names that exist in (or are created in) the simulated file
    system are routed there, everything else goes to the real one."""
    import builtins
    import runpy

    saved = (sys.argv, sys.stdin, sys.stdout, sys.stderr)
    real_open, real_io_open = builtins.open, io.open

    def routed_open(file: Any, mode: str = "r", *a: Any, **k: Any) -> Any:
        name = file if isinstance(file, str) else (os.fspath(file) if hasattr(file, "__fspath__") else None)
        if isinstance(name, str):
            base = os.path.basename(name)
            if name in fs.files or base in fs.files or base in SIM_NAMES:
                return fs.open(base if base in fs.files or base in SIM_NAMES else name, mode, *a, **k)
        return real_open(file, mode, *a, **k)

    had_open = "open" in argparse.__dict__
    old_open = argparse.__dict__.get("open")
    out_b = _Named(name="<stdout>")
    err_s = io.StringIO()
    stdout = io.TextIOWrapper(out_b, encoding="utf-8", errors="strict", write_through=True)
    escaped: Optional[str] = None
    status = 0
    try:
        sys.argv = ["json"] + list(argv)
        # like the interpreter on POSIX: no newline translation on stdin
        sys.stdin = io.TextIOWrapper(_Named(stdin_bytes, name="<stdin>"), encoding="utf-8", errors="strict", newline="\n")
        sys.stdout = stdout
        sys.stderr = err_s
        argparse.open = fs.open  # type: ignore[attr-defined]
        builtins.open = routed_open  # type: ignore[assignment]
        io.open = routed_open  # type: ignore[assignment]
        try:
            runpy.run_module("jsonpath.__main__", run_name="__main__")
        except SystemExit as e:
            code = e.code
            if code is None:
                status = 0
            elif isinstance(code, int):
                status = code
            else:
                err_s.write(str(code) + "\n")
                status = 1
        except BaseException as e:  # noqa: BLE001
            # what the interpreter does with an uncaught exception
            escaped = type(e).__name__
            traceback.print_exception(type(e), e, e.__traceback__, file=err_s)
            status = 1
        try:
            stdout.flush()
        except Exception:  # noqa: BLE001
            status = 120
    finally:
        sys.argv, sys.stdin, sys.stdout, sys.stderr = saved
        builtins.open = real_open
        io.open = real_io_open
        if had_open:
            argparse.open = old_open  # type: ignore[attr-defined]
        else:
            try:
                del argparse.open  # type: ignore[attr-defined]
            except AttributeError:
                pass
    return ProcResult(status, out_b.getvalue(), err_s.getvalue(), escaped)


def run_cli_subprocess(
    argv: List[str], stdin_bytes: bytes, files: Dict[str, bytes], repo: str, outputs: List[str]
) -> Dict[str, Any]:
    """The same invocation as a real ``python -m jsonpath`` process in a scratch directory."""
    base = os.environ.get("TMPDIR") or tempfile.gettempdir()
    d = tempfile.mkdtemp(prefix="jpsim-cli-", dir=base)
    try:
        for name, data in files.items():
            with open(os.path.join(d, name), "wb") as f:
                f.write(data)
        env = dict(os.environ)
        env["PYTHONPATH"] = repo
        env["PYTHONIOENCODING"] = "utf-8:strict"
        env["PYTHONUTF8"] = "1"
        env["PYTHONDONTWRITEBYTECODE"] = "1"
        env.pop("PYTHONHASHSEED", None)
        p = subprocess.run(
            [sys.executable, "-m", "jsonpath"] + list(argv),
            input=stdin_bytes,
            capture_output=True,
            cwd=d,
            env=env,
            timeout=120,
        )
        outs: Dict[str, Optional[bytes]] = {}
        for name in outputs:
            path = os.path.join(d, name)
            outs[name] = open(path, "rb").read() if os.path.exists(path) else None
        return {
            "status": p.returncode,
            "stdout": p.stdout,
            "stderr": p.stderr.decode("utf-8", "replace"),
            "files": outs,
        }
    finally:
        shutil.rmtree(d, ignore_errors=True)
