"""In-memory file system and single-use stream stubs.

``SimFS.open`` has the signature of the builtin ``open`` as far as
``argparse.FileType`` and the library use it.  Handles are ``io.IOBase``
subclasses with a cursor, EOF and close semantics; reads are logged.  Write
handles store into the file system immediately, so content is observable
without relying on ``close()``.
"""
from __future__ import annotations

import io
from typing import Any
from typing import Callable
from typing import Dict
from typing import List
from typing import Optional


class SimFile(io.IOBase):
    """``SimFile(data, text=...)`` gives a text stream (an ``io.TextIOBase``) or a binary one (an
    ``io.BufferedIOBase``, with neither ``encoding`` nor ``errors``), as ``open()`` would."""

    def __new__(cls, data: bytes = b"", *a: Any, text: bool = True, **k: Any) -> "SimFile":
        if cls is SimFile:
            cls = SimTextFile if text else SimBinFile
        return super().__new__(cls)

    def __init__(
        self,
        data: bytes,
        *,
        text: bool,
        name: str = "<sim>",
        mode: str = "r",
        on_event: Optional[Callable[..., None]] = None,
        sink: Optional[Callable[[bytes], None]] = None,
        encoding: str = "utf-8",
        errors: str = "strict",
        seekable: bool = False,
        max_read: int = 0,
    ) -> None:
        super().__init__()
        self._data = data
        self._pos = 0
        self._text = text
        self.name = name
        self.mode = mode
        self._on_event = on_event
        self._sink = sink
        self._encoding = encoding
        self._errors = errors
        self._seekable = seekable
        # short reads: read(n) with n > 0 returns at most max_read units, like a pipe or socket;
        # read() / read(-1) still returns everything up to EOF, as io.RawIOBase.readall does
        self._max_read = max_read
        self._tbuf: Optional[str] = None
        self.reads = 0
        self.writes = 0

    # --- reading
    def readable(self) -> bool:
        return self._sink is None

    def writable(self) -> bool:
        return self._sink is not None

    def seekable(self) -> bool:
        return self._seekable

    def _buf(self) -> Any:
        """The readable content: bytes, or (text mode) the decoded string; decoding errors surface at the first read."""
        if not self._text:
            return self._data
        if self._tbuf is None:
            self._tbuf = self._data.decode(self._encoding, self._errors)
        return self._tbuf

    def read(self, n: int = -1) -> Any:
        if self.closed:
            raise ValueError("I/O operation on closed file.")
        if self._sink is not None:
            raise io.UnsupportedOperation("not readable")
        self.reads += 1
        buf = self._buf()
        if n is None or n < 0:
            chunk = buf[self._pos :]
            self._pos = len(buf)
        else:
            if self._max_read:
                n = min(n, self._max_read)
            chunk = buf[self._pos : self._pos + n]
            self._pos += len(chunk)
        if self._on_event is not None:
            self._on_event("read", self.name, len(chunk))
        return chunk

    def read1(self, n: int = -1) -> Any:
        """At most one underlying read: like read(n), and a short read when no size is given."""
        if (n is None or n < 0) and self._max_read:
            n = self._max_read
        return self.read(n)

    def readline(self, size: int = -1) -> Any:  # type: ignore[override]
        if self.closed:
            raise ValueError("I/O operation on closed file.")
        if self._sink is not None:
            raise io.UnsupportedOperation("not readable")
        self.reads += 1
        buf = self._buf()
        rest = buf[self._pos :]
        i = rest.find("\n" if self._text else b"\n")
        chunk = rest if i < 0 else rest[: i + 1]
        self._pos += len(chunk)
        return chunk

    def seek(self, pos: int, whence: int = 0) -> int:
        if not self._seekable:
            raise io.UnsupportedOperation("not seekable")
        if whence == 0:
            self._pos = pos
        elif whence == 1:
            self._pos += pos
        else:
            self._pos = len(self._buf()) + pos
        return self._pos

    def tell(self) -> int:
        return self._pos

    # --- writing
    def write(self, s: Any) -> int:
        if self.closed:
            raise ValueError("I/O operation on closed file.")
        if self._sink is None:
            raise io.UnsupportedOperation("not writable")
        self.writes += 1
        b = s.encode(self._encoding, self._errors) if self._text else bytes(s)
        self._sink(b)
        return len(s)

    def flush(self) -> None:
        return None


class SimTextFile(SimFile, io.TextIOBase):
    @property
    def encoding(self) -> str:  # type: ignore[override]
        return self._encoding

    @property
    def errors(self) -> str:  # type: ignore[override]
        return self._errors

    @property
    def newlines(self) -> None:  # type: ignore[override]
        return None


class SimBinFile(SimFile, io.BufferedIOBase):
    pass


class SimFS:
    """path -> bytes."""

    def __init__(self, on_event: Optional[Callable[..., None]] = None) -> None:
        self.files: Dict[str, bytes] = {}
        self.on_event = on_event
        self.opened: List[str] = []

    def put(self, path: str, data: bytes) -> None:
        self.files[path] = data

    def get(self, path: str) -> bytes:
        return self.files[path]

    def open(self, file: Any, mode: str = "r", buffering: int = -1, encoding: Any = None, errors: Any = None, *a: Any, **k: Any) -> SimFile:
        path = str(file)
        text = "b" not in mode
        if encoding in (None, "locale"):
            # the simulated process runs in a UTF-8 locale (pathlib passes io.text_encoding()'s "locale" on)
            encoding = "utf-8"
        self.opened.append(f"{path}:{mode}")
        if self.on_event is not None:
            self.on_event("open", path, mode)
        if "r" in mode:
            if path not in self.files:
                raise FileNotFoundError(2, "No such file or directory", path)
            return SimFile(self.files[path], text=text, name=path, mode=mode, on_event=self.on_event,
                           encoding=encoding or "utf-8", errors=errors or "strict")
        if "w" in mode:
            self.files[path] = b""

            def sink(b: bytes, _p: str = path) -> None:
                self.files[_p] = self.files.get(_p, b"") + b

            return SimFile(b"", text=text, name=path, mode=mode, on_event=self.on_event, sink=sink,
                           encoding=encoding or "utf-8", errors=errors or "strict")
        raise ValueError(f"unsupported mode {mode!r}")
