"""Seeded JSON document generator (shared by all checks)."""
from __future__ import annotations

import random
from typing import Any
from typing import Dict
from typing import List
from typing import Tuple

KEYS_PLAIN = ["a", "b", "c", "x", "y", "d", "e"]
KEYS_ODD = ["0", "1", "-1", "01", "", "ä", "a b", "'", '"', "~", "/", "and", "k-1", "_p"]
# rarer still: reserved words, numeric look-alikes, syntax characters, control and non-BMP characters
KEYS_RARE = ["true", "null", "or", "in", "1e3", "10", "a.b", "a[0]", "$", "@", "#", "\n", "\\", "\x00", "\U0001f600", "é", "*", "?", ","]
SCALARS_RARE = [2**53 + 1, -(2**53) - 1, 12345678901234567890, -0.0, 1e100, 1e-7, -2.5, 100, "q'uote", 'dq"uote', "back\\slash",
                "ctl\n\x00", "\U0001f600", "é", "\u00e9\u0301", " lead", "trail ", "[1]", "{}", "null", "true"]
SCALARS = [None, True, False, 0, 1, -1, 2, 10, 1.5, 1.0, "", "a", "abc", "1", "x y", "b", 3]
# no look-alikes under Python equality (True == 1, 1 == 1.0): used where a
# statement is phrased in terms of "the same value".
SCALARS_NO_LOOKALIKE = [None, 2, 3, 10, -4, 1.5, 2.5, "", "a", "abc", "1", "x y", "b", "2"]


def profile(rng: random.Random) -> Dict[str, Any]:
    return {
        "max_depth": rng.choice([1, 2, 2, 3, 3, 4, 4, 6]),
        "max_children": rng.choice([2, 3, 3, 4, 4, 9]),
        "rare": rng.random() < 0.2,
        "odd_keys": rng.random() < 0.3,
        "stringy": rng.random() < 0.3,
        "p_container": rng.choice([0.3, 0.5, 0.7]),
        "lookalikes": True,
    }


def gen_key(rng: random.Random, prof: Dict[str, Any]) -> str:
    if prof.get("rare") and rng.random() < 0.2:
        return rng.choice(KEYS_RARE)
    if prof.get("odd_keys") and rng.random() < 0.35:
        return rng.choice(KEYS_ODD)
    return rng.choice(KEYS_PLAIN)


def gen_scalar(rng: random.Random, prof: Dict[str, Any]) -> Any:
    if prof.get("rare") and prof.get("lookalikes", True) and rng.random() < 0.15:
        return rng.choice(SCALARS_RARE)
    pool = SCALARS if prof.get("lookalikes", True) else SCALARS_NO_LOOKALIKE
    if prof.get("stringy") and rng.random() < 0.5:
        return rng.choice(["", "a", "abc", "1", "x y", "b", "ab", "0"])
    return rng.choice(pool)


def gen_value(rng: random.Random, prof: Dict[str, Any], depth: int = 0, budget: List[int] = None) -> Any:  # type: ignore[assignment]
    if budget is None:
        budget = [40]
    budget[0] -= 1
    if depth >= prof["max_depth"] or budget[0] <= 0 or rng.random() > prof["p_container"]:
        return gen_scalar(rng, prof)
    n = rng.randint(0, prof["max_children"])
    if rng.random() < 0.5:
        out: Dict[str, Any] = {}
        for _ in range(n):
            out[gen_key(rng, prof)] = gen_value(rng, prof, depth + 1, budget)
        return out
    return [gen_value(rng, prof, depth + 1, budget) for _ in range(n)]


def gen_document(rng: random.Random, prof: Dict[str, Any] = None) -> Any:  # type: ignore[assignment]
    """A document whose root is an array or an object."""
    if prof is None:
        prof = profile(rng)
    n = rng.randint(1, prof["max_children"] + 1)
    if rng.random() < 0.04:
        n = 0  # the empty object / array is a document too (and it is falsy)
    budget = [40]
    if rng.random() < 0.6:
        out: Dict[str, Any] = {}
        for _ in range(n):
            out[gen_key(rng, prof)] = gen_value(rng, prof, 1, budget)
        return out
    return [gen_value(rng, prof, 1, budget) for _ in range(n)]


def walk(v: Any, path: Tuple[Any, ...] = ()) -> List[Tuple[Tuple[Any, ...], Any]]:
    """All (location, value) pairs of a JSON value, document order."""
    out = [(path, v)]
    if isinstance(v, dict):
        for k, x in v.items():
            out.extend(walk(x, path + (k,)))
    elif isinstance(v, list):
        for i, x in enumerate(v):
            out.extend(walk(x, path + (i,)))
    return out


def names_in(v: Any) -> List[str]:
    out: List[str] = []
    for _, x in walk(v):
        if isinstance(x, dict):
            for k in x:
                if k not in out:
                    out.append(k)
    return out


def count_nodes(v: Any) -> int:
    return len(walk(v))
