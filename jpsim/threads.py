"""ThreadSched: real threads, baton-passed, pre-empted at source lines.

Every client is a real ``threading.Thread`` parked on its own semaphore; only
the baton holder runs.  A trace function (``sys.settrace``) returns a local
tracer only for frames whose code lives under the traced directory; on each
``line`` event a countdown (the current *quantum*) decrements and at zero the
scheduler picks the next runnable thread through the run's chooser and passes
the baton.  Exactly one thread is runnable at any time and the pre-emption
points are line events of deterministic code, so the interleaving is a function
of the choice list.
"""
from __future__ import annotations

import _thread
import os
import sys
import threading
from typing import Any
from typing import Callable
from typing import Dict
from typing import List
from typing import Optional

from . import simlock
from .core import HarnessError



class LockDeadlock(Exception):
    """Every live simulated thread is waiting for a lock held by another one."""


class _Baton:
    """A binary semaphore made of a raw (never patched) lock: starts unavailable."""

    __slots__ = ("_l",)

    def __init__(self) -> None:
        self._l = _thread.allocate_lock()
        self._l.acquire()

    def acquire(self, timeout: float = -1) -> bool:
        return self._l.acquire(True, timeout)

    def release(self) -> None:
        self._l.release()


QUANTA = [0, 1, 2, 3, 5, 8, 13, 21, 34, 55, 89, 144]  # 0 = run until the next voluntary yield
WAIT_S = 90.0


class _Client:
    __slots__ = ("idx", "name", "fn", "sem", "done", "exc", "thread", "last_file", "steps")

    def __init__(self, idx: int, name: str, fn: Callable[[], None]) -> None:
        self.idx = idx
        self.name = name
        self.fn = fn
        self.sem = _Baton()
        self.done = False
        self.exc: Optional[BaseException] = None
        self.thread: Optional[threading.Thread] = None
        self.last_file = ""
        self.steps = 0


class ThreadSched:
    def __init__(
        self,
        choose: Callable[..., int],
        trace_dir: str,
        on_switch: Optional[Callable[[int, int, str, str], None]] = None,
        max_steps: int = 3_000_000,
        p_quantum: float = 0.6,
        focus: Optional[str] = None,
    ) -> None:
        self.choose = choose
        self.trace_dir = os.path.join(os.path.realpath(trace_dir), "")
        self.clients: List[_Client] = []
        self.current: Optional[_Client] = None
        self.main_sem = _Baton()
        self._idents: Dict[int, None] = {}
        self.quantum = 0
        self.steps = 0
        self.switches = 0
        self.lock_waits = 0
        self.offers = 0  # reschedule points reached (quantum expiries and voluntary yields)
        self.preempts_in: Dict[str, int] = {}
        self.on_switch = on_switch
        self.max_steps = max_steps
        self.p_quantum = p_quantum
        # swarm-style hot spot: on entering a function of a file whose path contains *focus* the scheduler may cut
        # the running quantum down to 1-3 lines, so that pre-emptions land inside the first statements of such calls
        self.focus = focus
        self.focus_cuts = 0
        self.failed: Optional[str] = None
        self._file_cache: Dict[str, bool] = {}

    def add(self, name: str, fn: Callable[[], None]) -> int:
        c = _Client(len(self.clients), name, fn)
        self.clients.append(c)
        return c.idx

    # ------------------------------------------------------------ tracing
    def _traced(self, filename: str) -> bool:
        v = self._file_cache.get(filename)
        if v is None:
            try:
                v = os.path.realpath(filename).startswith(self.trace_dir)
            except Exception:  # noqa: BLE001
                v = False
            self._file_cache[filename] = v
        return v

    def _trace(self, frame: Any, event: str, arg: Any) -> Any:
        if event == "call" and self._traced(frame.f_code.co_filename):
            if self.focus and self.quantum > 3 and self.current is not None and self.focus in frame.f_code.co_filename:
                cut = self.choose(4, "focus", 0.5)
                if cut:
                    self.quantum = cut
                    self.focus_cuts += 1
            return self._local
        return None

    def _local(self, frame: Any, event: str, arg: Any) -> Any:
        if event == "line":
            me = self.current
            if me is not None:
                me.steps += 1
                self.steps += 1
                if self.quantum > 0:
                    self.quantum -= 1
                    if self.quantum == 0:
                        me.last_file = os.path.basename(frame.f_code.co_filename)
                        self._reschedule(me, me.last_file)
        return self._local

    # ------------------------------------------------------------ scheduling
    def _new_quantum(self) -> None:
        if self.steps > self.max_steps:
            self.quantum = 0
            return
        self.quantum = QUANTA[self.choose(len(QUANTA), "quantum", self.p_quantum)]

    def _reschedule(self, me: _Client, where: str) -> None:
        """Called by the baton holder: maybe hand the baton to another live client."""
        self.offers += 1
        live = [c for c in self.clients if not c.done and c is not me]
        if not live:
            self._new_quantum()
            return
        pick = self.choose(len(live) + 1, "thread")
        self._new_quantum()
        if pick == 0:
            return
        target = live[pick - 1]
        self.switches += 1
        if where:
            self.preempts_in[where] = self.preempts_in.get(where, 0) + 1
        if self.on_switch is not None:
            self.on_switch(me.idx, target.idx, where, target.last_file)
        self.current = target
        target.sem.release()
        if not me.sem.acquire(timeout=WAIT_S):
            self.failed = f"client {me.name} never got the baton back"
            raise HarnessError(self.failed)

    def is_client_thread(self) -> bool:
        return _thread.get_ident() in self._idents

    def blocked_on_lock(self, spins: int, timed: bool = False) -> bool:
        """The baton holder cannot take a lock of the code under simulation: run somebody else, retry later.

        Returns False when the wait has a timeout and that timeout is taken to have elapsed (simulated time
        passes while the others run: after a number of hand-overs, or at once when nobody else is alive)."""
        me = self.current
        if me is None:
            return True
        live = [c for c in self.clients if not c.done and c is not me]
        if timed and (spins > 40 or not live):
            return False
        if spins > 400:
            raise LockDeadlock(f"client {me.name} still cannot take a lock after yielding {spins} times")
        if not live:
            raise LockDeadlock(f"client {me.name} waits for a lock nobody alive holds")
        target = live[self.choose(len(live), "lock-wait")]
        self.switches += 1
        self.lock_waits += 1
        if self.on_switch is not None:
            self.on_switch(me.idx, target.idx, "lock", target.last_file)
        self.current = target
        self._new_quantum()
        target.sem.release()
        if not me.sem.acquire(timeout=WAIT_S):
            self.failed = f"client {me.name} never got the baton back"
            raise HarnessError(self.failed)
        return True

    def yield_point(self) -> None:
        """Voluntary yield at an operation boundary (called from client code)."""
        me = self.current
        if me is None or threading.current_thread() is not me.thread:
            return
        self._reschedule(me, "")

    def _body(self, c: _Client) -> None:
        if not c.sem.acquire(timeout=WAIT_S):
            return
        self._idents[_thread.get_ident()] = None
        sys.settrace(self._trace)
        try:
            c.fn()
        except BaseException as e:  # noqa: BLE001
            c.exc = e
        finally:
            sys.settrace(None)
            # from here on this thread is no longer a simulated client: any lock it meets while
            # winding down (threading's own bookkeeping) must block for real, not hand a baton on
            self._idents.pop(_thread.get_ident(), None)
            c.done = True
            live = [x for x in self.clients if not x.done]
            if live:
                pick = self.choose(len(live), "thread-exit")
                nxt = live[pick]
                self.switches += 1
                if self.on_switch is not None:
                    self.on_switch(c.idx, nxt.idx, "exit", nxt.last_file)
                self.current = nxt
                self._new_quantum()
                nxt.sem.release()
            else:
                self.current = None
                self.main_sem.release()

    def run(self) -> None:
        if not self.clients:
            return
        for c in self.clients:
            t = threading.Thread(target=self._body, args=(c,), name=f"sim-{c.name}", daemon=True)
            c.thread = t
            t.start()
        first = self.clients[self.choose(len(self.clients), "thread-start")]
        self.current = first
        self._new_quantum()
        simlock.ACTIVE = self
        try:
            first.sem.release()
            if not self.main_sem.acquire(timeout=WAIT_S * 4):
                self.failed = self.failed or "thread scheduler stalled"
                raise HarnessError(self.failed)
        finally:
            simlock.ACTIVE = None
        for c in self.clients:
            if c.thread is not None:
                c.thread.join(timeout=WAIT_S)
