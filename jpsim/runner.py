"""Batch runner: seeded search, minimisation, replay files, evidence.

A *check module* (``checks/cNN.py``) provides::

    PROPERTY: str
    BUDGET: {tier: {config: runs}}
    RULE, ASSUMPTIONS, REAL, STUB, FAULT_KINDS, TIME_UNIT
    generate(seed, config, tier) -> spec   (plain JSON: property, config, seed, knobs, plan)
    execute(spec, ctx) -> None             (raises core.Violation)
    shrink_plan(plan) -> iterator of smaller plans   (optional)

Exit codes: 0 held / 1 VIOLATION / 2 harness error or nondeterminism / 3 replay
not reproduced.
"""
from __future__ import annotations

import copy
import faulthandler
import json
import multiprocessing
import os
import signal
import subprocess
import sys
import time
import traceback
from concurrent.futures import ProcessPoolExecutor
from typing import Any
from typing import Dict
from typing import Iterator
from typing import List
from typing import Optional
from typing import Tuple

from . import core
from .core import Ctx
from .core import HarnessError
from .core import Outcome
from .core import Violation

VERIF = os.path.dirname(os.path.dirname(os.path.abspath(__file__)))
RUN_WALL_LIMIT_S = 60


class _RunTimeout(BaseException):
    pass


def _alarm(_sig: int, _frm: Any) -> None:
    raise _RunTimeout()


def generate_spec(mod: Any, seed: int, config: str, tier: str) -> Dict[str, Any]:
    """Generate a RunSpec and normalise it to plain JSON, so that what is executed is exactly
    what a replay file can hold (e.g. no non-string object keys)."""
    return json.loads(json.dumps(mod.generate(seed, config, tier)))


def run_one(mod: Any, spec: Dict[str, Any], keep_events: bool = False) -> Outcome:
    """Execute one RunSpec.  Pure function of (code under /repo, spec)."""
    ctx = Ctx(spec, keep_events=keep_events)
    out = Outcome()
    try:
        mod.execute(spec, ctx)
    except Violation as v:
        ctx.log.add("VIOLATION", v.clause)
        out.violation = {
            "clause": v.clause,
            "message": v.message,
            "signature": v.signature,
        }
    except _RunTimeout:
        raise
    except HarnessError:
        raise
    except Exception as e:  # noqa: BLE001
        raise HarnessError(
            f"exception inside harness for {spec.get('property')} seed={spec.get('seed')} "
            f"config={spec.get('config')}: {type(e).__name__}: {e}\n{traceback.format_exc()}"
        ) from e
    out.digest = ctx.log.digest()
    out.choices = ctx.chooser.trimmed()
    out.stats = ctx.stats
    out.nontrivial = ctx.nontrivial
    out.sched_sig = ctx.sched_sig()
    out.states = list(ctx.states)
    out.events = ctx.log.events
    out.sim_time = ctx.sim_time
    out.steps = ctx.steps
    return out


def run_spec(mod: Any, spec: Dict[str, Any], keep_events: bool = False) -> Outcome:
    """Execute a RunSpec, preceded by its prelude (earlier runs of the same process), if any.

    A prelude exists only when a violation could not be reproduced from a pristine process by
    the failing run alone, i.e. it depends on process-global state left behind by earlier
    evaluations -- which is itself a history the properties quantify over."""
    pre = spec.get("prelude")
    if pre:
        for config, index in pre["runs"]:
            seed = core.derive_seed(int(pre["base_seed"]), mod.PROPERTY, config, int(index))
            try:
                run_one(mod, generate_spec(mod, seed, config, pre["tier"]))
            except HarnessError:
                pass
    return run_one(mod, spec, keep_events=keep_events)


def _exit_child() -> None:
    """Leave a forked child: run exit handlers (scratch directories are removed there), then exit hard."""
    try:
        import atexit

        atexit._run_exitfuncs()
    except BaseException:  # noqa: BLE001
        pass
    os._exit(0)


def pristine_eval(mod: Any, spec: Dict[str, Any], timeout: float = 300.0) -> Optional[Dict[str, Any]]:
    """Execute *spec* in a forked child of this (pristine) process; return its verdict.

    The calling process never executes a spec itself, so every child starts from the same
    interpreter state as the batch workers did."""
    ctx = multiprocessing.get_context("fork")
    recv, send = ctx.Pipe(duplex=False)

    def child() -> None:
        try:
            out = run_spec(mod, spec)
            send.send({"violation": out.violation, "digest": out.digest, "choices": out.choices})
        except BaseException as e:  # noqa: BLE001
            try:
                send.send({"error": f"{type(e).__name__}: {e}"})
            except Exception:  # noqa: BLE001
                pass
        finally:
            _exit_child()

    p = ctx.Process(target=child)
    p.start()
    send.close()
    res: Optional[Dict[str, Any]] = None
    try:
        if recv.poll(timeout):
            res = recv.recv()
    except (EOFError, OSError):
        res = None
    finally:
        if p.is_alive():
            p.join(1.0)
        if p.is_alive():
            p.kill()
        p.join()
        recv.close()
    return res


# --------------------------------------------------------------------------
# workers


def _worker(args: Tuple[Any, ...]) -> Dict[str, Any]:
    (modname, tier, base_seed, config, total, wid, nworkers, max_viol, want_digests) = args
    faulthandler.enable()
    import importlib

    mod = importlib.import_module(modname)
    res: Dict[str, Any] = {
        "config": config,
        "evaluations": 0,
        "stats": {},
        "nontrivial": [],
        "sched": [],
        "states": {},
        "violations": [],
        "samples": [],
        "sim_time": 0.0,
        "steps": 0,
        "error": None,
        "digests": {},
        "choices": 0,
        "nonzero_choices": 0,
    }
    nontriv = set()
    sched = set()
    signal.signal(signal.SIGALRM, _alarm)
    try:
        for i in range(wid, total, nworkers):
            seed = core.derive_seed(base_seed, mod.PROPERTY, config, i)
            spec = generate_spec(mod, seed, config, tier)
            spec["index"] = i
            signal.alarm(RUN_WALL_LIMIT_S)
            try:
                out = run_one(mod, spec, keep_events=False)
            finally:
                signal.alarm(0)
            res["evaluations"] += 1
            for k, v in out.stats.items():
                res["stats"][k] = res["stats"].get(k, 0) + v
            if out.nontrivial:
                nontriv.add(int(out.digest[:15], 16))
            sched.add(int(out.sched_sig[:15], 16))
            for s in out.states:
                res["states"][s] = None
            res["sim_time"] += out.sim_time
            res["steps"] += out.steps
            res["choices"] += len(out.choices)
            if i < want_digests:
                res["digests"][str(i)] = out.digest
            if out.violation is not None:
                spec2 = dict(spec)
                spec2["choices"] = out.choices
                res["violations"].append({"spec": spec2, "violation": out.violation, "digest": out.digest,
                                          "wid": wid, "nworkers": nworkers})
                if len(res["violations"]) >= max_viol:
                    break
            elif i < 2 * nworkers and out.nontrivial and len(res["samples"]) < 1:
                res["samples"].append({"index": i, "seed": seed})
    except _RunTimeout:
        res["error"] = f"run exceeded {RUN_WALL_LIMIT_S}s wall limit (config={config} worker={wid})"
    except HarnessError as e:
        res["error"] = str(e)
    except Exception as e:  # noqa: BLE001
        res["error"] = f"{type(e).__name__}: {e}\n{traceback.format_exc()}"
    res["nontrivial"] = sorted(nontriv)
    res["sched"] = sorted(sched)
    res["states"] = list(res["states"])
    return res


def _task_child(task: Tuple[Any, ...], conn: Any) -> None:
    try:
        conn.send(_worker(task))
    except BaseException as e:  # noqa: BLE001
        try:
            conn.send({"fatal": f"{type(e).__name__}: {e}"})
        except Exception:  # noqa: BLE001
            pass
    finally:
        conn.close()
        _exit_child()


def _run_tasks(tasks: List[Tuple[Any, ...]], nworkers: int, errors: List[str]) -> List[Dict[str, Any]]:
    """Each task runs in its own process forked from this (pristine) one, at most *nworkers* at a time."""
    from multiprocessing.connection import wait

    ctx = multiprocessing.get_context("fork")
    pending = list(tasks)
    running: Dict[Any, Any] = {}
    results: List[Dict[str, Any]] = []
    deadline = time.time() + 8 * 3600
    while pending or running:
        while pending and len(running) < max(1, nworkers):
            t = pending.pop(0)
            recv, send = ctx.Pipe(duplex=False)
            p = ctx.Process(target=_task_child, args=(t, send))
            p.start()
            send.close()
            running[recv] = (p, t)
        ready = wait(list(running), timeout=5.0)
        for conn in ready:
            p, t = running.pop(conn)
            try:
                r = conn.recv()
                if "fatal" in r:
                    errors.append(f"worker failed ({t[3]} #{t[5]}): {r['fatal']}")
                else:
                    results.append(r)
            except (EOFError, OSError):
                errors.append(f"worker died without a result (config={t[3]} worker={t[5]})")
            conn.close()
            p.join(10.0)
            if p.is_alive():
                p.kill()
        if time.time() > deadline:
            for conn, (p, t) in running.items():
                p.kill()
                errors.append(f"worker timed out (config={t[3]} worker={t[5]})")
            break
    return results


def run_batch(
    modname: str,
    tier: str,
    base_seed: int,
    budget: Dict[str, int],
    nworkers: int,
    want_digests: int = 0,
    max_viol: int = 3,
) -> Dict[str, Any]:
    """Run all configurations of one property; merge worker results."""
    tasks = []
    for config, total in budget.items():
        if total <= 0:
            continue
        nw = max(1, min(nworkers, total))
        for wid in range(nw):
            tasks.append((modname, tier, base_seed, config, total, wid, nw, max_viol, want_digests))
    merged: Dict[str, Any] = {
        "evaluations": 0,
        "per_config": {},
        "stats": {},
        "nontrivial": set(),
        "sched": set(),
        "states": {},
        "violations": [],
        "samples": [],
        "sim_time": 0.0,
        "steps": 0,
        "errors": [],
        "digests": {},
        "choices": 0,
    }
    results = _run_tasks(tasks, nworkers, merged["errors"])
    for r in results:
        if r["error"]:
            merged["errors"].append(r["error"])
        merged["evaluations"] += r["evaluations"]
        pc = merged["per_config"].setdefault(r["config"], 0)
        merged["per_config"][r["config"]] = pc + r["evaluations"]
        for k, v in r["stats"].items():
            merged["stats"][k] = merged["stats"].get(k, 0) + v
        merged["nontrivial"].update((r["config"], x) for x in r["nontrivial"])
        merged["sched"].update((r["config"], x) for x in r["sched"])
        for s in r["states"]:
            merged["states"][s] = None
        merged["violations"].extend(r["violations"])
        merged["samples"].extend((r["config"], s["index"], s["seed"]) for s in r["samples"])
        merged["sim_time"] += r["sim_time"]
        merged["steps"] += r["steps"]
        merged["choices"] += r["choices"]
        for k, v in r["digests"].items():
            merged["digests"][f"{r['config']}:{k}"] = v
    merged["violations"].sort(key=lambda v: (v["spec"]["config"], v["spec"]["index"]))
    return merged


# --------------------------------------------------------------------------
# minimisation


def _fails(mod: Any, spec: Dict[str, Any], clause: str) -> Optional[Dict[str, Any]]:
    """Does *spec* violate *clause* when executed from a pristine process?"""
    res = pristine_eval(mod, spec)
    if not res or res.get("error") or not res.get("violation"):
        return None
    if res["violation"]["clause"] == clause:
        return res
    return None


def minimise(
    mod: Any, spec: Dict[str, Any], clause: str, max_execs: int = 500, max_s: float = 60.0
) -> Dict[str, Any]:
    """Shrink plan and choice list while the same clause is violated."""
    t0 = time.time()
    execs = 0
    best = copy.deepcopy(spec)

    def budget_left() -> bool:
        return execs < max_execs and time.time() - t0 < max_s

    def attempt(cand: Dict[str, Any]) -> bool:
        nonlocal best, execs
        execs += 1
        out = _fails(mod, cand, clause)
        if out is None:
            return False
        cand = copy.deepcopy(cand)
        cand["choices"] = out["choices"]
        best = cand
        return True

    # 0. prelude (earlier runs of the same process the violation depends on): fewest first
    pre = best.get("prelude")
    if pre and pre["runs"]:
        runs = list(pre["runs"])
        size = len(runs) // 2
        while size >= 1 and budget_left():
            shrunk = False
            for start in range(0, len(runs), size):
                cand = dict(best)
                cand["prelude"] = dict(pre)
                cand["prelude"]["runs"] = runs[:start] + runs[start + size :]
                if attempt(cand):
                    runs = best["prelude"]["runs"]
                    pre = best["prelude"]
                    shrunk = True
                    break
                if not budget_left():
                    break
            if not shrunk:
                size //= 2
        if not best["prelude"]["runs"]:
            best.pop("prelude", None)

    progress = True
    while progress and budget_left():
        progress = False
        # 1. plan
        shr = getattr(mod, "shrink_plan", None)
        if shr is not None:
            restart = True
            while restart and budget_left():
                restart = False
                for plan in shr(copy.deepcopy(best["plan"])):
                    if not budget_left():
                        break
                    cand = dict(best)
                    cand["plan"] = plan
                    if attempt(cand):
                        progress = True
                        restart = True
                        break
        # 2. choices
        ch = list(best.get("choices") or [])
        # truncate tail
        n = len(ch)
        cut = n // 2
        while cut >= 1 and budget_left():
            if len(ch) > cut:
                cand = dict(best)
                cand["choices"] = ch[: len(ch) - cut]
                if attempt(cand):
                    ch = list(best["choices"])
                    progress = True
                    continue
            cut //= 2
        # zero single entries / blocks
        ch = list(best.get("choices") or [])
        block = max(1, len(ch) // 4)
        while block >= 1 and budget_left():
            i = 0
            changed = False
            while i < len(ch) and budget_left():
                if any(ch[i : i + block]):
                    cand = dict(best)
                    c2 = list(ch)
                    c2[i : i + block] = [0] * len(c2[i : i + block])
                    cand["choices"] = c2
                    if attempt(cand):
                        ch = list(best["choices"])
                        changed = True
                        progress = True
                i += block
            if not changed:
                block //= 2
    best["shrink_execs"] = execs
    return best


def ddmin_list(items: List[Any]) -> Iterator[List[Any]]:
    """Candidates obtained by deleting chunks of a list (largest first)."""
    n = len(items)
    size = n // 2
    while size >= 1:
        for start in range(0, n, size):
            yield items[:start] + items[start + size :]
        size //= 2


def simpler_json(v: Any, depth: int = 0) -> Iterator[Any]:
    """Smaller JSON values of the same broad shape (for document shrinking)."""
    if isinstance(v, dict):
        keys = list(v)
        for k in keys:
            d = dict(v)
            del d[k]
            yield d
        if depth < 4:
            for k in keys:
                for s in simpler_json(v[k], depth + 1):
                    d = dict(v)
                    d[k] = s
                    yield d
    elif isinstance(v, list):
        for i in range(len(v)):
            yield v[:i] + v[i + 1 :]
        if depth < 4:
            for i in range(len(v)):
                for s in simpler_json(v[i], depth + 1):
                    yield v[:i] + [s] + v[i + 1 :]
    elif isinstance(v, str):
        if len(v) > 1:
            yield v[:1]
    elif isinstance(v, bool) or v is None:
        return
    elif isinstance(v, (int, float)):
        if v not in (0, 1):
            yield 1


# --------------------------------------------------------------------------
# known findings


def load_known_findings(prop: str) -> List[Dict[str, str]]:
    path = os.path.join(VERIF, "KNOWN_FINDINGS.txt")
    out: List[Dict[str, str]] = []
    if not os.path.exists(path):
        return out
    with open(path, encoding="utf-8") as f:
        for line in f:
            line = line.strip()
            if not line or line.startswith("#"):
                continue
            kind, _, rest = line.partition(":")
            kind = kind.strip()
            rest = rest.strip()
            if kind != "open":
                continue  # "fixed:" entries suppress nothing
            fields = rest.split(None, 2)
            d = {"kind": kind, "text": rest}
            for f_ in fields[:2]:
                if "=" in f_:
                    k, _, v = f_.partition("=")
                    d[k] = v
            if d.get("property") == prop and d.get("signature"):
                out.append(d)
    return out


# --------------------------------------------------------------------------
# replay


def write_replay(mod: Any, spec: Dict[str, Any], violation: Dict[str, str], digest: str) -> str:
    d = os.path.join(VERIF, "replays")
    os.makedirs(d, exist_ok=True)
    clause = violation["clause"].replace("/", "_")
    path = os.path.join(d, f"{mod.PROPERTY}-{spec['seed']}-{clause}.json")
    doc = {
        "property": mod.PROPERTY,
        "config": spec["config"],
        "seed": spec["seed"],
        "original_index": spec.get("index"),
        "tier": spec.get("tier"),
        "clause": violation["clause"],
        "signature": violation["signature"],
        "message": violation["message"],
        "digest": digest,
        "knobs": spec.get("knobs", {}),
        "plan": spec["plan"],
        "choices": spec.get("choices") or [],
    }
    if spec.get("prelude"):
        doc["prelude"] = spec["prelude"]
    rep = getattr(mod, "repro", None)
    if rep is not None:
        try:
            doc["repro"] = rep(spec, violation)
        except Exception:  # noqa: BLE001
            pass
    with open(path, "w", encoding="utf-8") as f:
        json.dump(doc, f, indent=1, ensure_ascii=True)
        f.write("\n")
    return path


def replay_file(mod: Any, path: str, verbose: bool = True) -> int:
    with open(path, encoding="utf-8") as f:
        doc = json.load(f)
    spec = {
        "property": doc["property"],
        "config": doc["config"],
        "seed": doc["seed"],
        "knobs": doc.get("knobs", {}),
        "plan": doc["plan"],
        "choices": doc.get("choices") or [],
        "tier": doc.get("tier"),
    }
    if doc.get("prelude"):
        spec["prelude"] = doc["prelude"]
    out = run_spec(mod, spec, keep_events=True)
    if verbose:
        for e in out.events[-60:]:
            print("  |", e)
    if out.violation is None:
        print(f"NOT-REPRODUCED property={mod.PROPERTY} replay={path} (no violation)")
        return 3
    if out.violation["clause"] != doc["clause"] or out.digest != doc["digest"]:
        print(
            f"NOT-REPRODUCED property={mod.PROPERTY} replay={path} "
            f"(clause {out.violation['clause']} vs {doc['clause']}, digest match={out.digest == doc['digest']})"
        )
        return 3
    print(f"{out.violation['clause']}: {out.violation['message']}")
    print(f"VIOLATION property={mod.PROPERTY} replay={path}")
    return 1


# --------------------------------------------------------------------------
# determinism self-check (a sample on every invocation; the large one lives in selftest/)


def _fresh_digests(prop: str, tier: str, base_seed: int, n: int, hashseed: str) -> Dict[str, str]:
    env = dict(os.environ)
    env["PYTHONHASHSEED"] = hashseed
    env["VERIF_NO_REEXEC"] = "1"
    env["VERIF_SEED"] = str(base_seed)
    cmd = [sys.executable, os.path.join(VERIF, "bin", "check"), prop, "--tier", tier, "--digests", str(n)]
    p = subprocess.run(cmd, env=env, capture_output=True, text=True, timeout=1800)
    if p.returncode != 0:
        raise HarnessError(f"digest subprocess failed ({p.returncode}): {p.stderr[-2000:]}")
    return json.loads(p.stdout.strip().splitlines()[-1])


def digests_only(mod: Any, tier: str, base_seed: int, n: int) -> Dict[str, str]:
    out: Dict[str, str] = {}
    for config, total in mod.BUDGET[tier].items():
        for i in range(min(n, total)):
            seed = core.derive_seed(base_seed, mod.PROPERTY, config, i)
            spec = generate_spec(mod, seed, config, tier)
            o = run_one(mod, spec)
            out[f"{config}:{i}"] = o.digest
    return out


# --------------------------------------------------------------------------
# main entry


def main_check(modname: str, argv: List[str]) -> int:
    import argparse
    import importlib

    ap = argparse.ArgumentParser()
    ap.add_argument("--tier", default=os.environ.get("VERIF_TIER", "quick"), choices=["quick", "thorough"])
    ap.add_argument("--replay")
    ap.add_argument("--runs", type=float, default=float(os.environ.get("VERIF_RUNS_SCALE", "1")))
    ap.add_argument("--workers", type=int, default=int(os.environ.get("VERIF_WORKERS", "0")))
    ap.add_argument("--digests", type=int, default=0)
    ap.add_argument("--no-selfcheck", action="store_true")
    ap.add_argument("--no-evidence", action="store_true")
    ap.add_argument("--config")
    args = ap.parse_args(argv)

    mod = importlib.import_module(modname)
    prop = mod.PROPERTY
    base_seed = int(os.environ.get("VERIF_SEED", core.DEFAULT_SEED))

    if args.replay:
        return replay_file(mod, args.replay)

    if args.digests:
        print(json.dumps(digests_only(mod, args.tier, base_seed, args.digests)))
        return 0

    nworkers = args.workers or min(16, os.cpu_count() or 1)
    budget = {c: int(n * args.runs) for c, n in mod.BUDGET[args.tier].items()}
    if args.config:
        budget = {c: n for c, n in budget.items() if c == args.config}
    n_self = 0 if args.no_selfcheck else (40 if args.tier == "quick" else 400)
    print(f"[{prop}] seed={base_seed} tier={args.tier} workers={nworkers} budget={budget}")
    sys.stdout.flush()
    t0 = time.time()
    merged = run_batch(modname, args.tier, base_seed, budget, nworkers, want_digests=n_self)
    wall_search = time.time() - t0

    rc = 0
    if merged["errors"]:
        for e in merged["errors"][:5]:
            print(f"HARNESS-ERROR property={prop}: {e}", file=sys.stderr)
        rc = 2

    # determinism self-check: same seeds again in this process and in a fresh
    # interpreter under another PYTHONHASHSEED; digests must agree.
    selfcheck = {"runs": 0, "mismatches": 0, "fresh_interpreter_hashseed": None, "hashseed_dependent_runs": 0}
    if n_self and rc == 0 and not merged["violations"]:
        again = digests_only(mod, args.tier, base_seed, n_self)
        hs = str(1 + (base_seed % 9973))
        fresh = _fresh_digests(prop, args.tier, base_seed, n_self, hs)
        selfcheck["fresh_interpreter_hashseed"] = hs
        fresh0: Optional[Dict[str, str]] = None
        for k, d in merged["digests"].items():
            selfcheck["runs"] += 1
            bad = again.get(k) != d
            if not bad and fresh.get(k) != d:
                # Differs under another PYTHONHASHSEED only?  Then something (in the library under test or in this
                # harness) walks a hash-ordered container; every check and every replay runs under PYTHONHASHSEED=0
                # (bin/check re-executes itself), where one seed is still one exactly repeatable execution.
                if fresh0 is None:
                    fresh0 = _fresh_digests(prop, args.tier, base_seed, n_self, "0")
                if fresh0.get(k) == d:
                    selfcheck["hashseed_dependent_runs"] += 1
                else:
                    bad = True
            if bad:
                selfcheck["mismatches"] += 1
                print(
                    f"HARNESS-NONDETERMINISM property={prop} run={k} batch={d[:12]} "
                    f"again={str(again.get(k))[:12]} fresh={str(fresh.get(k))[:12]}",
                    file=sys.stderr,
                )
        if selfcheck["hashseed_dependent_runs"]:
            print(f"[{prop}] note: {selfcheck['hashseed_dependent_runs']} of {selfcheck['runs']} self-check runs give another event log under "
                  f"PYTHONHASHSEED={hs}; under the pinned PYTHONHASHSEED=0 (also in a fresh interpreter) they repeat exactly")
        if selfcheck["mismatches"]:
            rc = 2

    # violations
    reported = 0
    known_printed = 0
    if merged["violations"] and rc != 2:
        known = load_known_findings(prop)
        seen: Dict[Tuple[str, str], None] = {}
        for v in merged["violations"]:
            key = (v["violation"]["clause"], v["violation"]["signature"])
            if key in seen:
                continue
            seen[key] = None
            k = next((k for k in known if k["signature"] == v["violation"]["signature"]), None)
            if k is not None:
                if not k.get("printed"):
                    k["printed"] = "1"
                    desc = k["text"].split(None, 2)[2] if len(k["text"].split(None, 2)) > 2 else ""
                    print(f"KNOWN-FINDING: property={prop} {desc} [signature={k['signature']}]")
                    known_printed += 1
                continue
            if reported >= 3:
                continue
            spec = v["spec"]
            spec["tier"] = args.tier
            clause = v["violation"]["clause"]
            # Does the failing run alone reproduce it from a pristine process?  If not, it depends on
            # process-global state left by the earlier runs of that worker: replay those first.
            first = _fails(mod, spec, clause)
            if first is None:
                spec = dict(spec)
                spec["prelude"] = {
                    "base_seed": base_seed,
                    "tier": args.tier,
                    "runs": [[spec["config"], j] for j in range(v["wid"], spec["index"], v["nworkers"])],
                }
                first = _fails(mod, spec, clause)
                if first is None:
                    print(
                        f"HARNESS-NONDETERMINISM property={prop}: run {spec['config']}:{spec['index']} violated {clause} in its "
                        f"worker but neither it nor the worker's whole history reproduces it from a pristine process",
                        file=sys.stderr,
                    )
                    rc = 2
                    continue
            small = minimise(mod, spec, clause, max_execs=300 if spec.get("prelude") else 500, max_s=90.0)
            final = _fails(mod, small, clause)
            if final is None:
                print(f"HARNESS-NONDETERMINISM property={prop}: minimised spec did not fail again", file=sys.stderr)
                rc = 2
                continue
            small["choices"] = final["choices"]
            path = write_replay(mod, small, final["violation"], final["digest"])
            env = dict(os.environ)
            env["VERIF_NO_REEXEC"] = "0"
            p = subprocess.run(
                [sys.executable, os.path.join(VERIF, "bin", "check"), prop, "--replay", path],
                capture_output=True,
                text=True,
                timeout=900,
                env=env,
            )
            if p.returncode != 1:
                print(
                    f"HARNESS-NONDETERMINISM property={prop}: fresh-process replay of {path} "
                    f"exited {p.returncode}: {p.stdout[-500:]} {p.stderr[-500:]}",
                    file=sys.stderr,
                )
                rc = 2
                continue

            class _O:  # noqa: N801
                violation = final["violation"]

            out = _O()  # type: ignore[assignment]
            print(f"{out.violation['clause']}: {core.short(out.violation['message'], 600)}")
            print(f"VIOLATION property={prop} replay={path}")
            reported += 1
        if reported:
            # a violation that reproduced exactly from a fresh process stands, even if another candidate
            # of the same batch could not be reproduced (that one was only reported on stderr)
            rc = 1

    wall = time.time() - t0
    if not args.no_evidence:
        write_evidence(mod, args.tier, base_seed, merged, wall, wall_search, selfcheck, reported, known_printed, budget)
    if merged["violations"]:
        fv = min(merged["violations"], key=lambda v: v["spec"]["index"])
        print(f"[{prop}] earliest violating run: {fv['spec']['config']}:{fv['spec']['index']} "
              f"(of {budget.get(fv['spec']['config'], 0)} in that configuration)")
    print(
        f"[{prop}] runs={merged['evaluations']} nontrivial_distinct={len(merged['nontrivial'])} "
        f"interleavings={len(merged['sched'])} states={len(merged['states'])} "
        f"violations={reported} known={known_printed} wall={wall:.1f}s rc={rc}"
    )
    return rc


def write_evidence(
    mod: Any,
    tier: str,
    base_seed: int,
    merged: Dict[str, Any],
    wall: float,
    wall_search: float,
    selfcheck: Dict[str, Any],
    reported: int,
    known_printed: int,
    budget: Dict[str, int],
) -> None:
    samples = []
    for config, index, seed in sorted(merged["samples"])[:3]:
        spec = generate_spec(mod, seed, config, tier)
        out = run_one(mod, spec, keep_events=True)
        samples.append(
            {
                "config": config,
                "index": index,
                "seed": seed,
                "knobs": spec.get("knobs", {}),
                "plan": spec["plan"],
                "choices": out.choices[:200],
                "event_log_tail": out.events[-40:],
                "digest": out.digest,
                "nontrivial": out.nontrivial,
            }
        )
    if not samples:
        # still show what a case looks like
        for config, total in budget.items():
            if total > 0:
                seed = core.derive_seed(base_seed, mod.PROPERTY, config, 0)
                spec = generate_spec(mod, seed, config, tier)
                out = run_one(mod, spec, keep_events=True)
                samples.append({"config": config, "index": 0, "seed": seed, "plan": spec["plan"],
                                "choices": out.choices[:200], "event_log_tail": out.events[-40:],
                                "digest": out.digest, "nontrivial": out.nontrivial})
                break
    stats = merged["stats"]
    faults: Dict[str, Dict[str, int]] = {}
    for kind in getattr(mod, "FAULT_KINDS", []):
        faults[kind] = {
            "configured": stats.get(f"fault.{kind}.configured", 0),
            "fired": stats.get(f"fault.{kind}.fired", 0),
        }
    probes = {k[len("probe."):]: v for k, v in sorted(stats.items()) if k.startswith("probe.")}
    for name in getattr(mod, "PROBES", []):
        probes.setdefault(name, 0)
    stuck = [k for k, v in probes.items() if v == 0]
    other = {k: v for k, v in sorted(stats.items()) if not k.startswith(("probe.", "fault."))}
    ev = {
        "property_id": mod.PROPERTY,
        "tier": tier,
        "seed": base_seed,
        "level": "exploration",
        "coverage": {
            "evaluations": merged["evaluations"],
            "distinct_nontrivial": len(merged["nontrivial"]),
            "rule": mod.RULE,
            "samples": samples,
            "runs_per_config": merged["per_config"],
            "runs_per_hour": int(merged["evaluations"] / max(wall_search, 1e-6) * 3600),
            "seed_base": base_seed,
            "seed_derivation": "seed_i = sha256(f'{VERIF_SEED}:{property}:{config}:{i}')[:8]",
            "seed_count": merged["evaluations"],
            "simulated_time": {"unit": getattr(mod, "TIME_UNIT", "logical steps"),
                               "virtual_seconds": round(merged["sim_time"], 3),
                               "logical_steps": merged["steps"]},
            "choice_points": merged["choices"],
            "faults": faults,
            "distinct_interleavings": len(merged["sched"]),
            "distinct_interleavings_measure": "distinct hashes of the per-run client-switch sequence (per configuration)",
            "states_reached": len(merged["states"]),
            "states_measure": getattr(mod, "STATES_MEASURE", ""),
            "states_sample": sorted(merged["states"])[:40],
            "probes": probes,
            "probes_stuck_at_zero": stuck,
            "counters": other,
            "real_components": getattr(mod, "REAL", []),
            "stub_components": getattr(mod, "STUB", []),
            "determinism_selfcheck": selfcheck,
            "known_findings_printed": known_printed,
            "harness_errors": len(merged["errors"]),
        },
        "assumptions": getattr(mod, "ASSUMPTIONS", []),
        "wall_s": round(wall, 2),
        "violations": reported,
    }
    d = os.path.join(VERIF, "evidence")
    os.makedirs(d, exist_ok=True)
    tmp = os.path.join(d, f".{mod.PROPERTY}.json.tmp")
    with open(tmp, "w", encoding="utf-8") as f:
        json.dump(ev, f, indent=1, ensure_ascii=True)
        f.write("\n")
    os.replace(tmp, os.path.join(d, f"{mod.PROPERTY}.json"))
    for k in stuck:
        print(f"[{mod.PROPERTY}] warning: probe stuck at zero: {k}")
